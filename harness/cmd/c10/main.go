// c10: executes typed-stream plans and seeded histories against bytex.BufferX (writer and
// buffer reader) and bytex.ReaderX (stream reader over sources that fragment their data),
// recording one ndjson event per call for validation by TLC
// (specs/typedstream/TypedStream_Trace.tla).
//
// The harness decides nothing: it logs what was written (type, value token, Len() delta), the
// byte images around a rewrite, and what every reader answered.  Values are rendered as opaque
// tokens (tuples of small integers: 16-bit limbs of the bit pattern, or the bytes of a string).
package main

import (
	"bufio"
	"bytes"
	"encoding/json"
	"errors"
	"flag"
	"fmt"
	"io"
	"math"
	"math/rand"
	"os"
	"path/filepath"
	"runtime/debug"
	"sort"
	"strings"
	"testing/iotest"
	"time"
	"unsafe"

	"github.com/pinealctx/neptune/bytex"

	"verif/harness/internal/tr"
)

// ---------------------------------------------------------------------------------------------
// values and tokens

var scalarTypes = []string{"bool", "u8", "u16", "i16", "u32", "i32", "u64", "i64", "f64",
	"vu64", "vi64", "vu32", "vi32"}

func isVar(t string) bool { return len(t) > 1 && t[0] == 'v' }

// width in bits of the value's pattern
func bitsOf(t string) int {
	switch t {
	case "bool", "u8":
		return 8
	case "u16", "i16":
		return 16
	case "u32", "i32", "vu32", "vi32":
		return 32
	}
	return 64
}

// val is one typed value: scalars as a bit pattern in u, str/raw as bytes.
type val struct {
	t string
	u uint64
	b []byte
}

// refLen: payloads above this many bytes are rendered by reference.
const refLen = 256

// tokStr renders a string / raw payload: the bytes themselves or, above refLen, the reference
// <<-1, length, FNV-1a 64 digest as 4 limbs, first 4 bytes, last 4 bytes>> - the same function of
// the bytes wherever a payload is logged, so TLC compares long payloads by reference.  It takes a
// string so that a retained string is read where it is (no conversion, no copy).
func tokStr(s string) []int {
	if len(s) <= refLen {
		return tr.Str(s)
	}
	h := uint64(14695981039346656037)
	for i := 0; i < len(s); i++ {
		h ^= uint64(s[i])
		h *= 1099511628211
	}
	r := append([]int{-1, len(s)}, tr.Limbs(h)...)
	for _, c := range []byte(s[:4] + s[len(s)-4:]) {
		r = append(r, int(c))
	}
	return r
}

func tokBytes(b []byte) []int {
	if len(b) <= refLen {
		return tr.Ints(b)
	}
	return tokStr(*(*string)(unsafe.Pointer(&b))) // read in place
}

// pattern: n bytes determined by id (plans name long payloads as <<-1, n, id>>)
func pattern(n, id int) []byte {
	b := make([]byte, n)
	x := uint32(id)*2654435761 + 12345
	for i := range b {
		x = x*1664525 + 1013904223
		b[i] = byte(x >> 24)
	}
	return b
}

func (v val) tok() []int {
	switch v.t {
	case "str", "raw":
		return tokBytes(v.b)
	case "bool", "u8", "u16":
		return []int{int(v.u)}
	case "i16":
		return []int{int(int16(v.u))}
	}
	if bitsOf(v.t) == 32 {
		return []int{int((v.u >> 16) & 0xffff), int(v.u & 0xffff)}
	}
	return tr.Limbs(v.u)
}

func s64(x int64) uint64 { return uint64(x) }
func s32(x int32) uint64 { return uint64(uint32(x)) }

// boundary values; index 0..3 is what a TLC plan's token <<i>> refers to (for the varints the
// encoded widths are those of ModelN in TypedStream.tla: 1,2,5,10 and 1,2,3,5 bytes).
var table = map[string][]uint64{
	"bool": {0, 1, 1, 0},
	"u8":   {0, 1, 127, 255, 128},
	"u16":  {0, 1, 0x7fff, 0xffff, 0x8000, 256, 255},
	"i16":  {0, 0xffff, 0x7fff, 0x8000, 0xff00},
	"u32":  {0, 1, 0xffffffff, 0x80000000, 0x7fffffff, 65536, 0x01020304},
	"i32":  {0, 0xffffffff, 0x7fffffff, 0x80000000, 0xffff0000},
	"u64":  {0, 1, math.MaxUint64, 1 << 63, math.MaxInt64, 1 << 32, 0x0102030405060708},
	"i64":  {0, math.MaxUint64, math.MaxInt64, 1 << 63, 0xffffffff00000000},
	"f64": {0, 1 << 63, 0x3ff0000000000000, 0x7ff8000000000001, 0x7ff0000000000001, 0xfff8000000000000,
		0x7ff0000000000000, 0xfff0000000000000, 0x7fefffffffffffff, 1, 0x7ff4000000000000,
		0x7fffffffffffffff},
	"vu64": {0, 128, 1 << 28, math.MaxUint64, 127, 1 << 63, 1 << 35, 16383, 16384},
	"vi64": {0, 64, 1 << 27, 1 << 63, s64(-1), s64(-64), s64(-65), math.MaxInt64, 63},
	"vu32": {0, 128, 1 << 14, 0xffffffff, 127, 1 << 31, 1 << 21},
	"vi32": {0, 64, 1 << 13, 0x80000000, s32(-1), s32(-64), s32(-65), 0x7fffffff, 63},
}

func randVal(rng *rand.Rand, t string) val {
	tb := table[t]
	var u uint64
	if rng.Intn(100) < 60 {
		u = tb[rng.Intn(len(tb))]
	} else {
		u = rng.Uint64()
		if rng.Intn(3) == 0 {
			u >>= uint(rng.Intn(64))
		}
	}
	if t == "bool" {
		u &= 1
	} else if b := bitsOf(t); b < 64 {
		u &= (1 << uint(b)) - 1
	}
	return val{t: t, u: u}
}

func randBytes(rng *rand.Rand, n int) []byte {
	b := make([]byte, n)
	for i := range b {
		switch rng.Intn(6) {
		case 0:
			b[i] = 0
		case 1:
			b[i] = 0xff
		default:
			b[i] = byte(rng.Intn(256))
		}
	}
	return b
}

// blockLen: payload sizes at and around internal block sizes: k*2^j and k*2^j +- 1
func blockLen(rng *rand.Rand) int {
	j := []int{256, 512, 1024, 4096, 8192, 65536}[rng.Intn(6)]
	k := rng.Intn(4) + 1
	if j == 65536 && k > 2 {
		k = 1
	}
	return k*j + rng.Intn(3) - 1
}

func randLen(rng *rand.Rand, big bool) int {
	switch x := rng.Intn(100); {
	case x < 22:
		return 0
	case x < 40:
		return 1
	case x < 85:
		return rng.Intn(12) + 2
	case x < 97 || !big:
		return []int{3, 4, 5, 16, 31, 64}[rng.Intn(6)]
	default:
		return []int{255, 256, 300, 1021, 1100}[rng.Intn(5)]
	}
}

// ---------------------------------------------------------------------------------------------
// action records (also the plan format written by TypedStream_Gen)

type act struct {
	Op   string `json:"op"`
	T    string `json:"t"`
	Kind string `json:"kind"`
	Via  string `json:"via"`
	Tok  []int  `json:"tok"`
	N    int    `json:"n"`
	Lim  int    `json:"lim"`
	Pos  int    `json:"pos"`
	Plen int    `json:"plen"`
	C    int    `json:"c"`
	Ks   []int  `json:"ks"`
}

type planLine struct {
	A act `json:"a"`
}

// the uint32 limit behind a logged lim (lim is clamped to int32 for TLC; lengths never get there)
var limSalt int

func limArg(lim int) uint32 {
	if lim >= math.MaxInt32 { // logged clamped; the real limit walks over 2^31-1, 2^31, 2^32-1
		limSalt++
		return []uint32{math.MaxInt32, 1 << 31, math.MaxUint32}[limSalt%3]
	}
	return limArgOld(lim)
}

func limArgOld(lim int) uint32 {
	if lim >= math.MaxInt32 {
		return math.MaxUint32
	}
	return uint32(lim)
}

// ---------------------------------------------------------------------------------------------
// a source that fragments its data

// k > 0: at most k bytes per Read; 0: everything at once; < 0: irregular pieces, and
//
//	-2  io.EOF is reported together with the last bytes (n > 0, err)
//	-3  now and then a Read returns (0, nil) ("nothing happened", never twice in a row)
//	-4  the data ends with io.ErrUnexpectedEOF instead of io.EOF (a reader stacked on a framed one)
//	-5  the data ends with a foreign error, reported together with the last bytes (n > 0, err)
//	-6  one byte per Read, the data ends with a foreign error
//	-7..-13  standard readers (see newSource);  <= -20  sentinel errors at the end (see endErrs)
//
// How the source ends is not compared (error identity is open): every kind is "no more bytes".
type chunkSrc struct {
	data []byte
	pos  int
	k    int
	rng  *rand.Rand
	zero bool
}

var errBoom = errors.New("source failed")

// endErrs: how a source may end - every exported error of the packages on either side of ReaderX
// (io, bytes, bytex itself), plain and wrapped.  Code -20-2i ends with endErrs[i] after the last
// bytes, -21-2i together with them.
var endErrs = []error{
	io.EOF, io.ErrUnexpectedEOF, io.ErrShortBuffer, io.ErrNoProgress, io.ErrShortWrite, io.ErrClosedPipe,
	bytes.ErrTooLarge, bytex.ErrByteBufferEmpty, bytex.ErrReadWrongNum, bytex.ErrSizeLimit,
	fmt.Errorf("wrapped: %w", io.EOF), fmt.Errorf("wrapped: %w", io.ErrUnexpectedEOF),
	fmt.Errorf("wrapped: %w", bytex.ErrSizeLimit),
}

func (c *chunkSrc) endErr() error {
	switch {
	case c.k == -4:
		return io.ErrUnexpectedEOF
	case c.k == -5, c.k == -6:
		return errBoom
	case c.k <= -20:
		return endErrs[((-c.k-20)/2)%len(endErrs)]
	}
	return io.EOF
}

func (c *chunkSrc) withData() bool {
	return c.k == -2 || c.k == -5 || (c.k <= -20 && (-c.k)%2 == 1)
}

// source is what a ReaderX is put on: the reader itself (of its own dynamic kind - a ReaderX may
// look at it), and how far it has got (for the harness's own bookkeeping only).
type source struct {
	rd   io.Reader
	rest func() []byte
}

// skip lets the source pass n bytes (ReaderX has no varint readers)
func (q *source) skip(n int) {
	_, _ = io.CopyN(io.Discard, q.rd, int64(n))
}

// Codes -7..-13: the standard library's readers over the same bytes.
func newSource(data []byte, k int, rng *rand.Rand) *source {
	tail := func(left int) []byte { return data[len(data)-left:] }
	switch k {
	case -7:
		r := bytes.NewReader(data)
		return &source{rd: r, rest: func() []byte { return tail(r.Len()) }}
	case -8:
		r := strings.NewReader(string(data))
		return &source{rd: r, rest: func() []byte { return tail(r.Len()) }}
	case -9:
		c := &chunkSrc{data: data, k: -1, rng: rng}
		r := bufio.NewReaderSize(c, 16)
		return &source{rd: r, rest: func() []byte { return data[c.pos-r.Buffered():] }}
	case -10:
		r := bytes.NewReader(data)
		return &source{rd: iotest.OneByteReader(r), rest: func() []byte { return tail(r.Len()) }}
	case -11:
		r := bytes.NewReader(data)
		return &source{rd: iotest.HalfReader(r), rest: func() []byte { return tail(r.Len()) }}
	case -12:
		h := len(data) / 2
		r1, r2 := bytes.NewReader(data[:h]), bytes.NewReader(data[h:])
		return &source{rd: io.MultiReader(r1, r2), rest: func() []byte { return tail(r1.Len() + r2.Len()) }}
	case -13:
		r := bytes.NewBuffer(append([]byte{}, data...)) // a bytes.Buffer consumes its slice: own copy
		return &source{rd: r, rest: func() []byte { return tail(r.Len()) }}
	}
	c := &chunkSrc{data: data, k: k, rng: rng}
	return &source{rd: c, rest: func() []byte { return data[c.pos:] }}
}

func (c *chunkSrc) Read(p []byte) (int, error) {
	if len(p) == 0 {
		return 0, nil
	}
	left := len(c.data) - c.pos
	if left == 0 {
		return 0, c.endErr()
	}
	if c.k == -3 && !c.zero && c.rng.Intn(3) == 0 {
		c.zero = true
		return 0, nil
	}
	c.zero = false
	n := len(p)
	if n > left {
		n = left
	}
	switch {
	case c.k > 0 && n > c.k:
		n = c.k
	case c.k == -6:
		n = 1
	case c.k < 0:
		n = c.rng.Intn(n) + 1
	}
	copy(p, c.data[c.pos:c.pos+n])
	c.pos += n
	if c.withData() && c.pos == len(c.data) {
		return n, c.endErr() // io.Reader may report the end together with the last bytes
	}
	return n, nil
}

// ---------------------------------------------------------------------------------------------
// answers

// ans is what one reader answered.  A returned string / byte slice is kept AS RETURNED (the very
// value, no copy, no conversion) and rendered into a token only when the event is written: at once,
// or - for every other history - when the whole history is over, so that a value a read handed
// out must still be that value after the buffer was reset, drained and written again.
type ans struct {
	ok  bool
	rem int
	pan int
	e   string
	t   string
	u   uint64
	s   string // ReadString / ReadLimitString result
	bs  []byte // ReadN / Read(p) result (ZReadN is documented as aliasing: copied at once)
}

func (a ans) tok() []int {
	if !a.ok {
		return []int{}
	}
	switch a.t {
	case "str":
		return tokStr(a.s)
	case "raw":
		return tokBytes(a.bs)
	}
	return val{t: a.t, u: a.u}.tok()
}

// sink writes events at once or keeps them (unrendered) until the history is over.
type sink struct {
	w    *tr.W
	lazy bool
	q    []func() tr.E
}

func (k *sink) emit(f func() tr.E) {
	if k.lazy {
		k.q = append(k.q, f)
		return
	}
	k.w.Emit(f())
}

func (k *sink) flush() {
	for _, f := range k.q {
		k.w.Emit(f())
	}
	k.q = nil
}

func errClass(err error) string {
	switch {
	case err == nil:
		return ""
	case errors.Is(err, bytex.ErrSizeLimit):
		return "limit"
	case errors.Is(err, bytex.ErrReadWrongNum):
		return "wrongnum"
	case errors.Is(err, bytex.ErrByteBufferEmpty):
		return "empty"
	case errors.Is(err, io.EOF):
		return "eof"
	case errors.Is(err, io.ErrUnexpectedEOF):
		return "ueof"
	}
	return "other"
}

func mk(t string, u uint64, b []byte, err error) ans {
	if err != nil {
		return ans{ok: false, e: errClass(err)}
	}
	return ans{ok: true, t: t, u: u, bs: b}
}

func mkS(s string, err error) ans {
	if err != nil {
		return ans{ok: false, e: errClass(err)}
	}
	return ans{ok: true, t: "str", s: s}
}

func b2u(b bool) uint64 {
	if b {
		return 1
	}
	return 0
}

// Every call into the code under test runs under a watchdog: a call that does not come back is an
// observation (pan = 2, which the trace spec never accepts), not a hung harness.  After the first
// one nothing more is called (the stuck goroutine may still be inside the object).
var (
	watchdog = 20 * time.Second
	halted   bool
)

func watch(f func()) (stuck bool) {
	if halted {
		return true
	}
	done := make(chan struct{})
	go func() {
		defer close(done)
		f()
	}()
	select {
	case <-done:
		return false
	default:
	}
	t := time.NewTimer(watchdog)
	defer t.Stop()
	select {
	case <-done:
		return false
	case <-t.C:
		halted = true
		return true
	}
}

func guard(f func() ans) ans {
	res := new(ans)
	if watch(func() {
		defer func() {
			if p := recover(); p != nil {
				*res = ans{ok: false, pan: 1, e: fmt.Sprintf("panic: %v", p)}
			}
		}()
		*res = f()
	}) {
		return ans{ok: false, pan: 2, e: "stuck"}
	}
	return *res
}

// protect runs one history; a panic raised inside neptune outside the guarded calls (a
// constructor, Len, Bytes, Reset) becomes an event of its own kind, which the trace spec rejects.
func protect(k *sink, body func()) {
	defer func() {
		if p := recover(); p != nil {
			if !strings.Contains(string(debug.Stack()), "github.com/pinealctx/neptune/") {
				panic(p)
			}
			k.flush()
			k.w.Emit(tr.E{"ev": "panic", "msg": fmt.Sprintf("%v", p)})
		}
	}()
	body()
	k.flush()
}

// one typed read on the buffer reader
func readB(b *bytex.BufferX, a act) ans {
	r := guard(func() ans {
		switch a.T {
		case "bool":
			x, err := b.ReadBool()
			return mk(a.T, b2u(x), nil, err)
		case "u8":
			x, err := b.ReadU8()
			return mk(a.T, uint64(x), nil, err)
		case "u16":
			x, err := b.ReadU16()
			return mk(a.T, uint64(x), nil, err)
		case "i16":
			x, err := b.ReadI16()
			return mk(a.T, uint64(uint16(x)), nil, err)
		case "u32":
			x, err := b.ReadU32()
			return mk(a.T, uint64(x), nil, err)
		case "i32":
			x, err := b.ReadI32()
			return mk(a.T, s32(x), nil, err)
		case "u64":
			x, err := b.ReadU64()
			return mk(a.T, x, nil, err)
		case "i64":
			x, err := b.ReadI64()
			return mk(a.T, s64(x), nil, err)
		case "f64":
			x, err := b.ReadF64()
			return mk(a.T, math.Float64bits(x), nil, err)
		case "vu64":
			x, err := b.ReadVarU64()
			return mk(a.T, x, nil, err)
		case "vi64":
			x, err := b.ReadVarI64()
			return mk(a.T, s64(x), nil, err)
		case "vu32":
			x, err := b.ReadVarU32()
			return mk(a.T, uint64(x), nil, err)
		case "vi32":
			x, err := b.ReadVarI32()
			return mk(a.T, s32(x), nil, err)
		case "str":
			if a.Lim >= 0 {
				x, err := b.ReadLimitString(limArg(a.Lim))
				return mkS(x, err)
			}
			x, err := b.ReadString()
			return mkS(x, err)
		case "raw":
			switch a.Via {
			case "n":
				x, err := b.ReadN(a.N)
				return mk(a.T, 0, x, err)
			case "z":
				x, err := b.ZReadN(a.N)
				return mk(a.T, 0, append([]byte{}, x...), err)
			case "p":
				p := outBuf(a.N)
				err := b.Read(p)
				return mk(a.T, 0, p, err)
			}
		}
		tr.Fatal("readB: unknown read %+v", a)
		return ans{}
	})
	r.rem = b.Len()
	return r
}

// the same read on a stream reader (ReaderX has no varint readers)
func readX(x *bytex.ReaderX, a act) ans {
	return guard(func() ans {
		switch a.T {
		case "bool":
			v, err := x.ReadBool()
			return mk(a.T, b2u(v), nil, err)
		case "u8":
			v, err := x.ReadByte()
			return mk(a.T, uint64(v), nil, err)
		case "u16":
			v, err := x.ReadU16()
			return mk(a.T, uint64(v), nil, err)
		case "i16":
			v, err := x.ReadI16()
			return mk(a.T, uint64(uint16(v)), nil, err)
		case "u32":
			v, err := x.ReadU32()
			return mk(a.T, uint64(v), nil, err)
		case "i32":
			v, err := x.ReadI32()
			return mk(a.T, s32(v), nil, err)
		case "u64":
			v, err := x.ReadU64()
			return mk(a.T, v, nil, err)
		case "i64":
			v, err := x.ReadI64()
			return mk(a.T, s64(v), nil, err)
		case "f64":
			v, err := x.ReadF64()
			return mk(a.T, math.Float64bits(v), nil, err)
		case "str":
			if a.Lim >= 0 {
				v, err := x.ReadLimitString(limArg(a.Lim))
				return mkS(v, err)
			}
			v, err := x.ReadString()
			return mkS(v, err)
		case "raw":
			switch a.Via {
			case "n":
				v, err := x.ReadN(a.N)
				return mk(a.T, 0, v, err)
			case "z":
				v, err := x.ZReadN(a.N)
				return mk(a.T, 0, append([]byte{}, v...), err)
			case "p":
				p := outBuf(a.N)
				err := x.Read(p)
				return mk(a.T, 0, p, err)
			}
		}
		tr.Fatal("readX: unknown read %+v", a)
		return ans{}
	})
}

// write performs one typed write.  `in` is the byte slice handed to the library (raw) - a private
// copy of v.b, so that the caller can see whether the call (or anything later) changed its input.
func write(b *bytex.BufferX, v val, lim int, in []byte) (ok bool, pan int, msg string) {
	defer func() {
		if p := recover(); p != nil {
			ok, pan, msg = false, 1, fmt.Sprintf("panic: %v", p)
		}
	}()
	switch v.t {
	case "bool":
		b.WriteBool(v.u != 0)
	case "u8":
		b.WriteU8(byte(v.u))
	case "u16":
		b.WriteU16(uint16(v.u))
	case "i16":
		b.WriteI16(int16(v.u))
	case "u32":
		b.WriteU32(uint32(v.u))
	case "i32":
		b.WriteI32(int32(v.u))
	case "u64":
		b.WriteU64(v.u)
	case "i64":
		b.WriteI64(int64(v.u))
	case "f64":
		b.WriteF64(math.Float64frombits(v.u))
	case "vu64":
		b.WriteVarU64(v.u)
	case "vi64":
		b.WriteVarI64(int64(v.u))
	case "vu32":
		b.WriteVarU32(uint32(v.u))
	case "vi32":
		b.WriteVarI32(int32(v.u))
	case "str":
		if lim >= 0 {
			if err := b.WriteLimitString(limArg(lim), string(v.b)); err != nil {
				return false, 0, errClass(err)
			}
			return true, 0, ""
		}
		b.WriteString(string(v.b))
	case "raw":
		b.Write(in)
	default:
		tr.Fatal("write: unknown type %q", v.t)
	}
	return true, 0, ""
}

// ---------------------------------------------------------------------------------------------
// one buffer lifetime

type written struct {
	v     val
	start int
	n     int
	dirty bool
}

type sess struct {
	k      *sink
	rng    *rand.Rand
	arb    bool
	W      *bytex.BufferX // the buffer written to
	items  []written      // bookkeeping for choosing reads and rewrite positions (never an oracle)
	image  []byte         // the written bytes, fixed at the first open
	b      *bytex.BufferX // buffer reader
	xs     []*bytex.ReaderX
	srcs   []*source
	lastIn []byte // the slice handed to the latest raw write
	skip   bool   // the rest of this open is given up (see doRead)
	phase  string // "w" | "r"
	midrw  bool
	self   bool
	c      int    // bytes given to the readers at the last open (+ what was written behind them since)
	wtot   int    // bytes written in this lifetime
	priv   []byte // private copy of image: the readers share `image` itself and must not change it
}

// every constructor, sizes from nothing to more than a history writes
// (the second result is the capacity the buffer was built with: histories fill it exactly)
func newBuffer(rng *rand.Rand) (*bytex.BufferX, int) {
	switch rng.Intn(8) {
	case 0:
		n := rng.Intn(40)
		return bytex.NewSizedBufferX(n), n // forces growth and data moves
	case 1:
		n := []int{0, 1, 2, 4096}[rng.Intn(4)]
		return bytex.NewSizedBufferX(n), n
	case 2:
		return bytex.NewReadableBufferX(make([]byte, 0)), 0
	case 3:
		return bytex.NewReadableBufferX(nil), 0
	case 4:
		n := rng.Intn(64)
		return bytex.NewReadableBufferX(make([]byte, 0, n)), n
	}
	return bytex.NewBufferX(), 1024
}

// start begins one buffer lifetime (one trace) on the BufferX W: a new one, or one that earlier
// lifetimes of the same history wrote and read (`how` says how it was emptied).  The reset event
// carries the Len() the buffer really has, which the trace spec requires to be 0.
func start(k *sink, rng *rand.Rand, src string, W *bytex.BufferX, how string) *sess {
	s := &sess{k: k, rng: rng, W: W, phase: "w"}
	total := W.Len()
	k.emit(func() tr.E { return tr.E{"ev": "reset", "arb": false, "total": total, "src": src, "how": how} })
	return s
}

func startArb(k *sink, rng *rand.Rand, src string, data []byte) *sess {
	s := &sess{k: k, rng: rng, arb: true, phase: "w", image: append([]byte{}, data...)}
	k.emit(func() tr.E {
		return tr.E{"ev": "reset", "arb": true, "total": len(data), "src": src, "bytes": tr.Ints(data)}
	})
	return s
}

func (s *sess) total() int {
	if s.image != nil {
		return len(s.image)
	}
	return s.W.Len()
}

// doWrite: one typed write to the buffer being written - or, while everything is being read back,
// to the buffer being read (the item queues behind the unread ones; the stream readers, which were
// given the old bytes, are dropped).
// outBuf: the caller's buffer for Read(p); a zero-length one is nil every other time
func outBuf(n int) []byte {
	if n == 0 {
		if limSalt++; limSalt%2 == 0 {
			return nil
		}
	}
	return make([]byte, n)
}

// writeSame: the caller fills the slice it passed to the previous raw write again (here: with
// what it holds now) and writes it once more - the same argument twice.
func (s *sess) writeSame() {
	if len(s.lastIn) == 0 {
		return
	}
	s.doWriteIn(val{t: "raw", b: append([]byte{}, s.lastIn...)}, -1, s.lastIn)
}

func (s *sess) doWrite(v val, lim int) {
	in := append([]byte{}, v.b...)
	if len(in) == 0 {
		if limSalt++; limSalt%2 == 0 {
			in = nil // Write(nil), WriteString("") with nothing behind it
		}
	}
	s.doWriteIn(v, lim, in)
}

func (s *sess) doWriteIn(v val, lim int, in []byte) {
	t := s.target()
	before := t.Len()
	if v.t == "raw" {
		s.lastIn = in
	}
	var ok bool
	var pan int
	var msg string
	if watch(func() { ok, pan, msg = write(t, v, lim, in) }) {
		ok, pan, msg = false, 2, "stuck"
	}
	after := t.Len()
	n := after - before
	inmut := func() bool { return !bytes.Equal(in, v.b) }
	if !s.k.lazy {
		// judged now; then the caller reuses its slice, which must not reach the buffer
		now := inmut()
		inmut = func() bool { return now }
		for i := range in {
			in[i] ^= 0xa5
		}
	}
	s.k.emit(func() tr.E {
		return tr.E{"ev": "call",
			"a": tr.E{"op": "w", "t": v.t, "tok": v.tok(), "n": n, "lim": lim},
			"r": tr.E{"ok": ok, "len": after, "pan": pan, "e": msg, "inmut": inmut()}}
	})
	if ok {
		s.items = append(s.items, written{v: v, start: s.wtot, n: n})
		s.wtot += n
		if s.phase == "r" {
			s.c += n
		}
	}
	if s.phase == "r" {
		s.midrw = true
		s.xs = nil
		s.srcs = nil
	}
}

// unread region of the buffer a rewrite goes to
func (s *sess) target() *bytex.BufferX {
	if s.phase == "w" {
		return s.W
	}
	return s.b
}

// u32w: the width of an encoded u32, observed (not assumed)
func encU32(v uint32) []byte {
	b := bytex.NewBufferX()
	b.WriteU32(v)
	return append([]byte{}, b.Bytes()...)
}

func (s *sess) doRewrite(kind string, pos int, p []byte, v uint32) {
	t := s.target()
	if pos > t.Len() {
		pos = t.Len()
	}
	before := append([]byte{}, t.Bytes()...)
	var tokv []int
	if kind == "u32" {
		p = encU32(v)
		tokv = val{t: "u32", u: uint64(v)}.tok()
	} else {
		tokv = tr.Ints(p)
	}
	pan, msg := 0, ""
	in := append([]byte{}, p...)
	if len(in) == 0 && kind == "p" {
		if limSalt++; limSalt%2 == 0 {
			in = nil
		}
	}
	if watch(func() {
		defer func() {
			if x := recover(); x != nil {
				pan, msg = 1, fmt.Sprintf("panic: %v", x)
			}
		}()
		if kind == "u32" {
			t.ReWriteU32(pos, v)
		} else {
			t.ReWrite(pos, in)
		}
	}) {
		pan, msg = 2, "stuck"
	}
	after := append([]byte{}, t.Bytes()...)
	inmut := func() bool { return !bytes.Equal(in, p) }
	if !s.k.lazy {
		now := inmut()
		inmut = func() bool { return now }
		for i := range in {
			in[i] ^= 0xa5
		}
	}
	s.k.emit(func() tr.E {
		return tr.E{"ev": "call",
			"a": tr.E{"op": "rw", "kind": kind, "pos": pos, "plen": len(p), "p": tr.Ints(p), "tok": tokv},
			"r": tr.E{"before": tr.Ints(before), "after": tr.Ints(after), "pan": pan, "e": msg,
				"inmut": inmut()}}
	})
	if s.phase == "r" {
		s.midrw = true
		s.xs = nil
		s.srcs = nil
	}
	// bookkeeping only: which items the harness should no longer expect to read back
	base := 0
	if s.phase == "r" {
		base = s.c - len(before) // bytes already consumed
	}
	for i := range s.items {
		it := &s.items[i]
		lo, hi := it.start-base, it.start-base+it.n
		if hi > pos && lo < pos+len(p) && it.n > 0 {
			exact := lo == pos && it.n == len(p) && ((kind == "u32" && it.v.t == "u32") || (kind == "p" && it.v.t == "raw"))
			if exact && !it.dirty {
				if kind == "u32" {
					it.v.u = uint64(v)
				} else {
					it.v.b = append([]byte{}, p...)
				}
			} else {
				it.dirty = true
			}
		}
	}
}

func (s *sess) doOpen(c int, ks []int, self bool) {
	if s.image == nil {
		s.image = append([]byte{}, s.W.Bytes()...)
	}
	if s.priv == nil {
		s.priv = append([]byte{}, s.image...)
	}
	if c > len(s.image) {
		c = len(s.image)
	}
	if self && (c != len(s.image) || s.arb) {
		self = false
	}
	s.self = self
	s.skip = false
	s.c = c
	if self {
		s.b = s.W
	} else {
		// all decoders of one lifetime decode from the same bytes (not from copies)
		s.b = bytex.NewReadableBufferX(s.image[:c:c])
	}
	s.xs = s.xs[:0]
	s.srcs = s.srcs[:0]
	for _, k := range ks {
		src := newSource(s.image[:c:c], k, rand.New(rand.NewSource(s.rng.Int63())))
		s.xs = append(s.xs, bytex.NewReaderX(src.rd))
		s.srcs = append(s.srcs, src)
	}
	s.phase = "r"
	if ks == nil {
		ks = []int{}
	}
	blen := s.b.Len()
	s.k.emit(func() tr.E {
		return tr.E{"ev": "call",
			"a": tr.E{"op": "open", "c": c, "ks": ks, "self": self},
			"r": tr.E{"len": blen, "pan": 0}}
	})
}

func ansE(a ans, withRem bool) tr.E {
	e := tr.E{"ok": a.ok, "v": a.tok(), "pan": a.pan, "e": a.e}
	if withRem {
		e["rem"] = a.rem
	}
	return e
}

// doRead performs one typed read on every live reader; returns whether the buffer reader gave a value.
var hugeProbes int

func (s *sess) doRead(a act) bool {
	if s.skip {
		return false
	}
	if a.T != "raw" {
		a.Via, a.N = "-", 0
	}
	if a.T != "str" {
		a.Lim = -1
	}
	if a.T == "str" { // also with a small limit: a decoder may allocate before it checks
		// generator bias only: an unlimited ReadString on a stream reader allocates the announced
		// length before reading; announced lengths above 1 MiB (possible only where the content
		// is arbitrary or was rewritten) are read behind a limit
		// (each reader is looked at: a deviating stream reader may stand elsewhere)
		huge := false
		if rest := s.b.Bytes(); len(rest) >= 4 && le32(rest) > 1<<20 {
			huge = true
		}
		for _, src := range s.srcs {
			if rest := src.rest(); len(rest) >= 4 && le32(rest) > 1<<20 {
				huge = true
			}
		}
		if huge {
			// a handful of probes per run go through behind a limit; after that the open is given
			// up (nothing is logged, nothing more is read until the next open): a decoder that
			// allocates before it checks must not cost the run minutes
			if hugeProbes++; hugeProbes > 3 {
				s.skip = true
				return false
			}
			if a.Lim < 0 || a.Lim > 65535 {
				a.Lim = 65535
			}
		}
	}
	lenBefore := s.b.Len()
	rb := readB(s.b, a)
	xa := make([]ans, 0, len(s.xs))
	if isVar(a.T) {
		// ReaderX has no varint readers: the sources skip what the buffer reader consumed
		if rb.ok {
			for _, src := range s.srcs {
				src.skip(lenBefore - rb.rem)
			}
		}
	} else {
		for _, x := range s.xs {
			xa = append(xa, readX(x, a))
		}
	}
	pulled := make([]int, 0, len(s.srcs)) // source bytes each stream reader has consumed (informational)
	for _, src := range s.srcs {
		pulled = append(pulled, s.c-len(src.rest()))
	}
	srcmut := !s.midrw && !bytes.Equal(s.image, s.priv)
	s.k.emit(func() tr.E {
		xr := make([]tr.E, 0, len(xa))
		for _, x := range xa {
			xr = append(xr, ansE(x, false))
		}
		return tr.E{"ev": "call",
			"a": tr.E{"op": "rd", "t": a.T, "lim": a.Lim, "n": a.N, "via": a.Via},
			"r": tr.E{"b": ansE(rb, true), "x": xr, "srcmut": srcmut, "pulled": pulled}}
	})
	if !s.k.lazy && a.T == "raw" && a.Via == "n" {
		// what ReadN returned is the caller's: it overwrites it and appends into it, and goes on reading
		for _, r := range append([]ans{rb}, xa...) {
			for i := range r.bs {
				r.bs[i] ^= 0x5a
			}
			_ = append(r.bs[:0], 0xee, 0xee, 0xee, 0xee, 0xee, 0xee, 0xee, 0xee, 0xee)
		}
	}
	return rb.ok
}

// ---------------------------------------------------------------------------------------------
// plans

func readPlan(path string) []act {
	f, err := os.Open(path)
	if err != nil {
		tr.Fatal("%v", err)
	}
	defer f.Close()
	var out []act
	sc := bufio.NewScanner(f)
	sc.Buffer(make([]byte, 1<<20), 1<<20)
	for sc.Scan() {
		var l planLine
		l.A.Lim = -1
		if err := json.Unmarshal(sc.Bytes(), &l); err != nil {
			tr.Fatal("plan %s: %v", path, err)
		}
		out = append(out, l.A)
	}
	return out
}

func bytesOf(tok []int) []byte {
	b := make([]byte, len(tok))
	for i, x := range tok {
		b[i] = byte(x)
	}
	return b
}

func planVal(a act) val {
	switch a.T {
	case "str", "raw":
		if len(a.Tok) == 3 && a.Tok[0] == -1 {
			return val{t: a.T, b: pattern(a.Tok[1], a.Tok[2])}
		}
		return val{t: a.T, b: bytesOf(a.Tok)}
	}
	tb, ok := table[a.T]
	if !ok || len(a.Tok) != 1 {
		tr.Fatal("plan: bad write %+v", a)
	}
	return val{t: a.T, u: tb[a.Tok[0]%len(tb)]}
}

// runPlan executes one plan as one lifetime of the buffer W.  The plan's last open, if it opens
// everything, reads the written buffer itself (the others read copies).
func runPlan(k *sink, rng *rand.Rand, name string, p []act, W *bytex.BufferX, how string) {
	if len(p) == 0 || p[0].Op != "init" {
		tr.Fatal("plan %s does not start with init", name)
	}
	s := start(k, rng, "plan:"+name, W, how)
	lastOpen := -1
	for i, a := range p {
		if a.Op == "open" {
			lastOpen = i
		}
	}
	for i, a := range p[1:] {
		switch a.Op {
		case "w":
			if s.phase != "w" && s.c != s.wtot { // behind a truncated open nothing is written
				return
			}
			s.doWrite(planVal(a), a.Lim)
		case "rw":
			if s.phase == "w" && s.image != nil {
				return
			}
			if a.Kind == "u32" {
				s.doRewrite("u32", a.Pos, nil, uint32(table["u32"][a.Tok[0]%len(table["u32"])]))
			} else {
				s.doRewrite("p", a.Pos, bytesOf(a.Tok), 0)
			}
		case "open":
			if s.midrw {
				return
			}
			s.doOpen(a.C, a.Ks, i+1 == lastOpen)
		case "rd":
			if s.phase != "r" {
				return
			}
			s.doRead(a)
		default:
			tr.Fatal("plan %s: unknown op %q", name, a.Op)
		}
	}
}

// ---------------------------------------------------------------------------------------------
// seeded histories

var chunkMenu = []int{1, 1, 2, 3, 4, 5, 7, 8, 9, 16, 0, 0, -1, -1, -2, -3, -4, -5, -6,
	-7, -8, -9, -10, -11, -12, -13, -20, -20, -20}

func randKs(rng *rand.Rand, n int) []int {
	ks := make([]int, 0, n)
	for i := 0; i < n; i++ {
		k := chunkMenu[rng.Intn(len(chunkMenu))]
		if k == -20 { // one of the sentinel endings, after or with the last bytes
			k = -20 - rng.Intn(2*len(endErrs))
		}
		ks = append(ks, k)
	}
	return ks
}

func limFor(rng *rand.Rand, n int) int {
	switch rng.Intn(7) {
	case 0:
		if n > 0 {
			return n - 1
		}
		return 0
	case 1, 2:
		return n
	case 3:
		return n + 1
	case 4:
		return 0
	case 5:
		return math.MaxInt32 // MaxUint32 on the wire side
	}
	return 65535
}

// the read that corresponds to a written item
func readFor(rng *rand.Rand, it written, overLimit bool) act {
	a := act{Op: "rd", T: it.v.t, Lim: -1, Via: "-"}
	switch it.v.t {
	case "str":
		n := len(it.v.b)
		switch x := rng.Intn(10); {
		case x < 4:
		case x < 6:
			a.Lim = n
		case x < 7:
			a.Lim = n + 1 + rng.Intn(3)
		case x < 8:
			a.Lim = math.MaxInt32
		default:
			if overLimit && n > 0 {
				a.Lim = rng.Intn(n) // refuses the string
			} else {
				a.Lim = n
			}
		}
	case "raw":
		a.N = len(it.v.b)
		vias := []string{"n", "z", "p"}
		if a.N == 0 {
			vias = []string{"p"} // ReadN(0) / ZReadN(0) are argument validation, left open
		}
		a.Via = vias[rng.Intn(len(vias))]
	}
	return a
}

// a read of something that needs at least one byte, for reading past the end / after an error
func extraRead(rng *rand.Rand) act {
	ts := append([]string{"str", "str", "raw"}, scalarTypes...)
	a := act{Op: "rd", T: ts[rng.Intn(len(ts))], Lim: -1, Via: "-"}
	if a.T == "str" && rng.Intn(2) == 0 {
		a.Lim = rng.Intn(5)
	}
	if a.T == "raw" {
		a.N = rng.Intn(4) + 1
		a.Via = []string{"n", "z", "p"}[rng.Intn(3)]
	}
	return a
}

// after the first refusal only "no panic" is left of the property: also the reads whose argument
// the readers are free to refuse (n <= 0)
func (s *sess) afterRefusal() {
	a := extraRead(s.rng)
	if s.rng.Intn(3) == 0 {
		a = act{Op: "rd", T: "raw", Lim: -1, N: []int{0, -1, -7, math.MinInt32}[s.rng.Intn(4)],
			Via: []string{"n", "z"}[s.rng.Intn(2)]}
	}
	s.doRead(a)
}

// readBack reads the written sequence until the first refusal (+ one read after it).  With
// `late`, more items are written behind the unread ones while the sequence is being read back.
func (s *sess) readBack(overLimit bool, rwAt int, late bool) {
	for i := 0; i < len(s.items); i++ {
		if i == rwAt && !s.midrw {
			s.randomRewrite(i)
		}
		if late && i > 0 && s.c == s.wtot && len(s.items) < 24 && s.rng.Intn(3) == 0 {
			for k := s.rng.Intn(3) + 1; k > 0; k-- {
				v, lim := randItem(s.rng, false)
				s.doWrite(v, lim)
			}
		}
		it := s.items[i]
		if it.dirty {
			// content no longer known to the harness either: read it, then stop
			s.doRead(readFor(s.rng, it, false))
			return
		}
		a := readFor(s.rng, it, overLimit)
		if !s.doRead(a) {
			if a.T == "str" && a.Lim >= 0 && a.Lim < len(it.v.b) && it.start+it.n <= s.c && !s.skip {
				// a whole string refused for its length: the readers have all stopped at the same
				// place inside it - reading goes on from there and they must go on agreeing
				for k := 0; k < 4; k++ {
					if !s.doRead(extraRead(s.rng)) {
						break
					}
				}
			}
			s.afterRefusal()
			return
		}
	}
	// past the end: the buffer must be empty for every reader
	if !s.doRead(extraRead(s.rng)) && s.rng.Intn(3) == 0 {
		s.afterRefusal()
	}
}

// a rewrite somewhere at or after item `from` (positions relative to the unread region)
func (s *sess) randomRewrite(from int) {
	t := s.target()
	ulen := t.Len()
	base := 0
	if from < len(s.items) {
		base = s.items[from].start
	} else {
		base = s.wtot
	}
	var cands []int
	for i := from; i < len(s.items); i++ {
		// (an exact replacement carries its bytes as the token: short payloads only)
		if (s.items[i].v.t == "u32" || s.items[i].v.t == "raw") && s.items[i].n > 0 && s.items[i].n <= refLen {
			cands = append(cands, i)
		}
	}
	switch x := s.rng.Intn(10); {
	case x < 4 && len(cands) > 0: // exact replacement of a u32 / raw item
		it := s.items[cands[s.rng.Intn(len(cands))]]
		if it.v.t == "u32" {
			s.doRewrite("u32", it.start-base, nil, uint32(randVal(s.rng, "u32").u))
		} else {
			s.doRewrite("p", it.start-base, randBytes(s.rng, it.n), 0)
		}
	case x < 6: // u32 anywhere, also hanging over the end
		s.doRewrite("u32", s.rng.Intn(ulen+1), nil, uint32(randVal(s.rng, "u32").u))
	case x < 7: // at the very end / empty
		s.doRewrite("p", ulen, randBytes(s.rng, s.rng.Intn(3)), 0)
	default:
		s.doRewrite("p", s.rng.Intn(ulen+1), randBytes(s.rng, s.rng.Intn(7)), 0)
	}
}

func randItem(rng *rand.Rand, big bool) (val, int) {
	switch x := rng.Intn(100); {
	case x < 18:
		return val{t: "str", b: randBytes(rng, randLen(rng, big))}, -1
	case x < 32:
		v := val{t: "str", b: randBytes(rng, randLen(rng, big))}
		return v, limFor(rng, len(v.b))
	case x < 42:
		return val{t: "raw", b: randBytes(rng, randLen(rng, false))}, -1
	}
	return randVal(rng, scalarTypes[rng.Intn(len(scalarTypes))]), -1
}

// round trip, every truncation point, rewrites, all chunkings
// emptied makes the buffer ready for its next lifetime and says how: Reset(), or nothing at all
// when the reads drained it (a read that hit the empty buffer has recycled it already).
func emptied(rng *rand.Rand, W *bytex.BufferX) string {
	if W.Len() > 0 || rng.Intn(2) == 0 {
		W.Reset()
		if rng.Intn(4) == 0 {
			W.Reset()
			return "Reset twice"
		}
		return "Reset"
	}
	return "drained"
}

// runHistory: one BufferX lives through 1..3 write / read-back cycles.  Every other history
// renders its events only when it is over (see ans).
func runHistory(w *tr.W, rng *rand.Rand, i int, maxItems int) {
	k := &sink{w: w, lazy: i%2 == 1}
	protect(k, func() {
		W, capHint := newBuffer(rng)
		how := "new"
		switch {
		case i%25 == 7: // long runs of one operation around 2^8
			longRun(start(k, rng, "hist", W, how), rng, 255+(i/25)%3)
			return
		case i%50 == 19: // ... and of whole write / read / empty cycles of one buffer
			for c, n := 0, 255+(i/50)%3; c < n && !halted; c++ {
				s := start(k, rng, "hist", W, how)
				v, lim := randItem(rng, false)
				s.doWrite(v, lim)
				s.doOpen(s.W.Len(), []int{}, true)
				s.readBack(false, -1, false)
				how = emptied(rng, W)
			}
			return
		}
		seed, m := rng.Int63(), maxItems
		for life, nlife := 0, 1+rng.Intn(3); life < nlife && !halted; life++ {
			// a later lifetime is a new one or - one time in four - the same one again
			// (same writes, same opens, same reads) on the recycled buffer
			if life > 0 && rng.Intn(4) != 0 {
				seed, m = rng.Int63(), maxItems/2+1
			}
			lr := rand.New(rand.NewSource(seed))
			lifetime(start(k, lr, "hist", W, how), lr, i, m, life, capHint)
			how = emptied(rng, W)
		}
	})
}

// longRun: cnt (255, 256, 257) items of one small type written, read back on a copy through two
// stream readers and then on the buffer itself.
func longRun(s *sess, rng *rand.Rand, cnt int) {
	t := []string{"u8", "bool", "vu64", "str", "u16"}[rng.Intn(5)]
	for j := 0; j < cnt; j++ {
		v := val{t: t, u: uint64(j % 2)}
		switch t {
		case "u8", "vu64", "u16":
			v.u = uint64(j % 251)
		case "str":
			v.b = []byte{byte(j)}[:j%2]
		}
		s.doWrite(v, -1)
	}
	s.doOpen(s.W.Len(), randKs(rng, 2), false)
	s.readBack(false, -1, false)
	s.doOpen(s.W.Len(), []int{}, true)
	s.readBack(false, -1, false)
}

func lifetime(s *sess, rng *rand.Rand, i int, maxItems int, life int, capHint int) {
	n := rng.Intn(maxItems) + 1
	switch rng.Intn(12) {
	case 0: // nothing is written: a rewrite addresses nothing, every read is refused
		if rng.Intn(2) == 0 {
			s.doRewrite([]string{"p", "u32"}[rng.Intn(2)], 0, randBytes(rng, rng.Intn(3)), 7)
		}
		s.doOpen(0, randKs(rng, 2), true)
		s.readBack(false, -1, false)
		return
	case 1: // given up after the writes (the caller resets the buffer)
		for j := 0; j < n; j++ {
			v, lim := randItem(rng, false)
			s.doWrite(v, lim)
		}
		return
	}
	big := i%9 == 0
	// every fifth history: a few payloads whose sizes sit at and around internal block sizes
	// (no rewrites there: their events carry whole buffer images)
	block := i%5 == 2
	nrw := 0
	if rng.Intn(2) == 0 && !block {
		nrw = rng.Intn(3) + 1
	}
	if block && n > 5 {
		n = 5
	}
	for j := 0; j < n; j++ {
		v, lim := randItem(rng, big)
		if block && (j == 0 || rng.Intn(2) == 0) {
			v, lim = val{t: []string{"str", "str", "raw"}[rng.Intn(3)], b: randBytes(rng, blockLen(rng))}, -1
			if j == 0 && i%4 == 2 { // the items behind it straddle offset 2^16
				v.b = randBytes(rng, 65536-4-rng.Intn(12))
			}
			if v.t == "str" && rng.Intn(3) == 0 {
				lim = limFor(rng, len(v.b))
			}
		}
		if len(s.items) > 0 && rng.Intn(10) == 0 { // the value just written, once more
			prev := s.items[len(s.items)-1].v
			if len(prev.b) <= refLen {
				v, lim = val{t: prev.t, u: prev.u, b: append([]byte{}, prev.b...)}, -1
			}
		}
		if i%7 == 3 && j == 1 {
			v, lim = randVal(rng, "u32"), -1 // the placeholder idiom: u32 slot patched later
		}
		s.doWrite(v, lim)
		if v.t == "raw" && rng.Intn(4) == 0 {
			s.writeSame() // the same slice passed again
		}
		if nrw > 0 && len(s.items) > 0 && rng.Intn(n) < 2 {
			s.randomRewrite(0)
			nrw--
		}
	}
	if fill := capHint - s.W.Len(); life == 0 && fill > 0 && fill <= 300 && rng.Intn(3) == 0 {
		s.doWrite(val{t: "raw", b: randBytes(rng, fill)}, -1) // exactly full
	}
	total := s.W.Len()
	// truncation points: all of them for short streams, else boundaries +-1 and a sample
	cuts := map[int]bool{}
	if total <= 36 {
		for c := 0; c < total; c++ {
			cuts[c] = true
		}
	} else {
		for _, it := range s.items {
			for _, c := range []int{it.start - 1, it.start, it.start + 1, it.start + it.n - 1} {
				if c >= 0 && c < total && rng.Intn(2) == 0 {
					cuts[c] = true
				}
			}
		}
		for k := 0; k < 12; k++ {
			cuts[rng.Intn(total)] = true
		}
	}
	cs := make([]int, 0, len(cuts))
	for c := range cuts {
		cs = append(cs, c)
	}
	sort.Ints(cs)
	if (life > 0 || block) && len(cs) > 6 { // later cycles, long payloads: a sample of the truncation points
		rng.Shuffle(len(cs), func(a, b int) { cs[a], cs[b] = cs[b], cs[a] })
		cs = cs[:6]
		sort.Ints(cs)
	}
	// the full round trip on copies with several chunkings (limits sometimes refuse)
	nks := 3
	if block {
		nks = 5
	}
	s.doOpen(total, randKs(rng, nks), false)
	s.readBack(rng.Intn(3) == 0, -1, false)
	for _, c := range cs {
		s.doOpen(c, randKs(rng, 2), false)
		s.readBack(false, -1, false)
	}
	// finally the buffer that was written to, itself; sometimes rewritten while being read
	rwAt := -1
	if rng.Intn(3) == 0 && len(s.items) > 1 && !block {
		rwAt = rng.Intn(len(s.items))
	}
	s.doOpen(total, randKs(rng, 3), true)
	s.readBack(false, rwAt, rng.Intn(2) == 0)
}

// arbitrary bytes as decoder input
func arbBytes(rng *rand.Rand) []byte {
	switch rng.Intn(6) {
	case 0: // plain random
		return randBytes(rng, rng.Intn(28))
	case 1: // runs of varint continuation bytes
		n := rng.Intn(13)
		b := make([]byte, n, n+4)
		for i := range b {
			b[i] = byte(0x80 | rng.Intn(128))
		}
		return append(b, randBytes(rng, rng.Intn(4))...)
	case 2: // small length prefixes with bodies that are too short / exact / longer
		var b []byte
		for k := rng.Intn(3) + 1; k > 0; k-- {
			n := rng.Intn(6)
			b = append(b, byte(n), 0, 0, 0)
			b = append(b, randBytes(rng, rng.Intn(n+3))...)
		}
		return b
	case 3: // a valid stream, damaged
		w := bytex.NewBufferX()
		for k := rng.Intn(5) + 1; k > 0; k-- {
			v, lim := randItem(rng, false)
			write(w, v, lim, v.b)
		}
		b := append([]byte{}, w.Bytes()...)
		for k := rng.Intn(3) + 1; k > 0 && len(b) > 0; k-- {
			j := rng.Intn(len(b))
			switch rng.Intn(3) {
			case 0:
				b[j] ^= byte(1 << uint(rng.Intn(8)))
			case 1:
				b = append(b[:j], b[j+1:]...)
			default:
				b = append(b[:j], append([]byte{byte(rng.Intn(256))}, b[j:]...)...)
			}
		}
		return b
	case 4:
		return []byte{}
	}
	return randBytes(rng, rng.Intn(70))
}

func le32(b []byte) uint32 {
	return uint32(b[0]) | uint32(b[1])<<8 | uint32(b[2])<<16 | uint32(b[3])<<24
}

func runArb(w *tr.W, rng *rand.Rand, i int) {
	data := arbBytes(rng)
	k := &sink{w: w, lazy: i%2 == 1}
	protect(k, func() { arbBody(startArb(k, rng, "arb", data), rng, data) })
}

func arbBody(s *sess, rng *rand.Rand, data []byte) {
	for round := 0; round < 3; round++ {
		c := len(data)
		if round > 0 && c > 0 {
			c = rng.Intn(c + 1)
		}
		s.doOpen(c, randKs(rng, 3), false)
		for steps := 0; steps < 40; steps++ {
			a := extraRead(rng)
			if a.T == "raw" && rng.Intn(4) == 0 {
				a.N = rng.Intn(3) // n = 0 as well: only through Read(p)
				if a.N == 0 {
					a.Via = "p"
				}
			}
			if !s.doRead(a) {
				s.afterRefusal() // still no panic
				break
			}
		}
	}
}

func main() {
	plans := flag.String("plans", "", "directory of TLC-generated plans")
	out := flag.String("out", "c10.ndjson", "trace file")
	seed := flag.Int64("seed", 1, "seed")
	nhist := flag.Int("hist", 150, "round-trip / truncation / rewrite histories")
	narb := flag.Int("arb", 300, "arbitrary-bytes histories")
	maxItems := flag.Int("maxitems", 10, "max typed writes per history")
	flag.Parse()
	rng := rand.New(rand.NewSource(*seed))

	w := tr.Create(*out)
	nplans := 0
	if *plans != "" {
		files, _ := filepath.Glob(filepath.Join(*plans, "*.ndjson"))
		sort.Strings(files)
		// three plans share one BufferX (three lifetimes of one history)
		for g := 0; g < len(files) && !halted; g += 3 {
			k := &sink{w: w, lazy: (g/3)%2 == 1}
			protect(k, func() {
				W, _ := newBuffer(rng)
				how := "new"
				end := g + 3
				if end > len(files) {
					end = len(files)
				}
				for _, f := range files[g:end] {
					runPlan(k, rng, filepath.Base(f), readPlan(f), W, how)
					how = emptied(rng, W)
					nplans++
				}
			})
		}
	}
	for i := 0; i < *nhist && !halted; i++ {
		runHistory(w, rng, i, *maxItems)
	}
	for i := 0; i < *narb && !halted; i++ {
		runArb(w, rng, i)
	}
	w.Close()
	fmt.Printf("plans=%d hist=%d arb=%d events=%d\n", nplans, *nhist, *narb, w.N())
}
