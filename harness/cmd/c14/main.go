// c14: drives neptune's serial executors (line.Line, mline.MultiLine, async.RunnerQ, async.ProcChan)
// and records what callers, callee and owner observe, for validation by TLC
// (specs/lanes/Lanes_Trace.tla).
//
// Step mode: one external action at a time (run, inv, end, cancel, stop), global quiescence after
// each (internal/qx), then the replies that arrived and a `quiet` observation (consumer goroutines
// left, owner's wait for termination returned).  The callee is harness code: it logs `start` with
// the lane index it was given and the goroutine it runs on, parks on a gate the plan releases,
// logs `end` and returns a value (or error) carrying the call's identity.  Contexts are a harness
// type whose error carries the call's identity, so "own context's error" is checked literally.
//
// Stress mode: free-running callers, canceller and stopper; every event goes through one
// mutex-protected log in an order consistent with real time; TLC infers the acceptance order.
package main

import (
	"bufio"
	"context"
	"encoding/json"
	"errors"
	"flag"
	"fmt"
	"math"
	"math/rand"
	"os"
	"path/filepath"
	"runtime"
	"sort"
	"strconv"
	"strings"
	"sync"
	"sync/atomic"
	"time"

	"github.com/pinealctx/neptune/syncx/pipe"
	"github.com/pinealctx/neptune/syncx/pipe/async"
	"github.com/pinealctx/neptune/syncx/pipe/line"
	"github.com/pinealctx/neptune/syncx/pipe/mline"
	"github.com/pinealctx/neptune/syncx/pipe/q"
	"github.com/pinealctx/neptune/ulog"

	"verif/harness/internal/qx"
	"verif/harness/internal/tr"
)

const maxCalls = 12          // Calls of Lanes_Trace.cfg
const maxHashes = 8          // Hashes of Lanes_Trace.cfg
const stopper = maxCalls + 1 // the qx worker the owner's Stop is issued on

// ---------------------------------------------------------------- identities carried by values

type resVal struct{ id int }
type resErr struct{ id int }

func (e resErr) Error() string { return "callee error of call " + strconv.Itoa(e.id) }

type resErrP struct{ id int } // used through a pointer (also a nil one)

func (e *resErrP) Error() string {
	if e == nil {
		return "typed nil error"
	}
	return "callee error (pointer) of call " + strconv.Itoa(e.id)
}

// Kinds of what a callee hands back (`kd` of inv and of replies; see OwnRes in Lanes.tla): the API
// takes and returns interface{}, so the dynamic kind is a plan dimension.  0..9 carry the call's
// identity, 10..19 do not, 30.. are sentinel errors of the packages involved returned by the
// callee as its own error.
const (
	kStruct, kPtr, kInt, kString, kSlice, kMap, kFunc = 0, 1, 2, 3, 4, 5, 6
	kNil, kNilPtr                                     = 10, 11
	eVal, ePtr, eWrap                                 = 0, 7, 8
	eNilPtr                                           = 12
	eClosed, eFull, eCanceled, eDeadline              = 30, 31, 32, 33
	eQClosed, eSync, eWrapClosed                      = 34, 35, 36
)

var valueKinds = []int{kStruct, kStruct, kStruct, kPtr, kInt, kString, kSlice, kMap, kFunc, kNil, kNilPtr}
var errorKinds = []int{eVal, eVal, eVal, ePtr, eWrap, eNilPtr, eClosed, eFull, eCanceled, eDeadline, eQClosed, eSync, eWrapClosed}

// mkValue renders identity id in kind kd (also used for the parameter handed to the callee).
func mkValue(kd, id int) interface{} {
	switch kd {
	case kPtr:
		return &resVal{id}
	case kInt:
		return id
	case kString:
		return "call-" + strconv.Itoa(id)
	case kSlice:
		return []int{id, id}
	case kMap:
		return map[string]int{"id": id}
	case kFunc:
		return func() int { return id }
	case kNil:
		return nil
	case kNilPtr:
		return (*resVal)(nil)
	}
	return resVal{id}
}

// decodeValue reads kind and identity back; ok = false: not a value of this harness.
func decodeValue(v interface{}) (kd, id int, ok bool) {
	switch x := v.(type) {
	case nil:
		return kNil, 0, true
	case resVal:
		return kStruct, x.id, true
	case *resVal:
		if x == nil {
			return kNilPtr, 0, true
		}
		return kPtr, x.id, true
	case int:
		return kInt, x, true
	case string:
		if n, err := strconv.Atoi(strings.TrimPrefix(x, "call-")); err == nil && strings.HasPrefix(x, "call-") {
			return kString, n, true
		}
	case []int:
		if len(x) == 2 && x[0] == x[1] {
			return kSlice, x[0], true
		}
	case map[string]int:
		if n, has := x["id"]; has && len(x) == 1 {
			return kMap, n, true
		}
	case func() int:
		if x != nil {
			return kFunc, x(), true
		}
	}
	return 0, 0, false
}

// scribble: the caller owns what it was given - after the reply has been rendered the aggregate
// is overwritten; nothing an executor hands out later may change with it.
func scribble(v interface{}) {
	switch x := v.(type) {
	case *resVal:
		if x != nil {
			x.id = -7
		}
	case []int:
		for i := range x {
			x[i] = -7
		}
	case map[string]int:
		x["id"] = -7
		x["junk"] = 1
	}
}

type ctxErr struct{ id int }

func (e ctxErr) Error() string { return "context of call " + strconv.Itoa(e.id) + " ended" }

// vctx is a context whose error names its owner.
type vctx struct {
	id   int
	done chan struct{}
	once sync.Once
	mu   sync.Mutex
	err  error
	dead int32
	// A submitter may be descheduled between handing its call over and looking at its context (and
	// result): Done(), when the submitting goroutine itself asks for the first time, can be held until
	// the plan says so (slow = 1, step mode) or yields the processor a number of times (free-running).
	// By then the lane may already have answered, so that result and context end are both there.
	owner   int64 // goroutine id of the submitter
	slow    int32 // 1: hold the submitter's first Done(); 2: was held
	holding int32 // the submitter is parked in Done()
	hold    chan struct{}
	onHold  func()
	yield   int
}

func newCtx(id int) *vctx {
	return &vctx{id: id, done: make(chan struct{}), hold: make(chan struct{})}
}
func (c *vctx) Deadline() (time.Time, bool) { return time.Time{}, false }
func (c *vctx) Done() <-chan struct{} {
	if atomic.LoadInt32(&c.slow) == 1 && int64(goid()) == atomic.LoadInt64(&c.owner) &&
		atomic.CompareAndSwapInt32(&c.slow, 1, 2) {
		if c.onHold != nil {
			c.onHold()
		}
		atomic.StoreInt32(&c.holding, 1)
		<-c.hold
		atomic.StoreInt32(&c.holding, 0)
	}
	for i := 0; i < c.yield; i++ {
		runtime.Gosched()
	}
	return c.done
}
func (c *vctx) Value(key interface{}) interface{} { return nil }
func (c *vctx) Err() error                        { c.mu.Lock(); defer c.mu.Unlock(); return c.err }
func (c *vctx) ended() bool                       { return atomic.LoadInt32(&c.dead) == 1 }
func (c *vctx) cancel() {
	c.once.Do(func() {
		c.mu.Lock()
		c.err = ctxErr{c.id}
		c.mu.Unlock()
		atomic.StoreInt32(&c.dead, 1)
		close(c.done)
	})
}

func goid() int {
	var buf [64]byte
	n := runtime.Stack(buf[:], false)
	f := strings.Fields(string(buf[:n]))
	id, _ := strconv.Atoi(f[1])
	return id
}

// ---------------------------------------------------------------- event log

// Events go to the trace file at once (flushed per event, so that a Go fatal error inside neptune
// leaves the history that led to it on disk; vlib then appends a `crash` event the spec rejects).
type evlog struct {
	mu     sync.Mutex
	w      *tr.W
	closed bool // the world is over: a straggler of a deviant executor must not write into the next trace
	gids   map[int]int
}

func (l *evlog) add(e tr.E) {
	l.mu.Lock()
	if !l.closed {
		l.w.Emit(e)
	}
	l.mu.Unlock()
}

// addStart logs a callee entry; goroutine ids are renamed 1,2,.. in order of appearance.
func (l *evlog) addStart(c, lane, g int) {
	l.mu.Lock()
	s, ok := l.gids[g]
	if !ok {
		s = len(l.gids) + 1
		l.gids[g] = s
	}
	if lane > 500 || lane < -500 {
		lane = -500 // keeps the event int32-safe; any out-of-range index is inexplicable anyway
	}
	if !l.closed {
		l.w.Emit(tr.E{"ev": "start", "c": c, "lane": lane, "g": s})
	}
	l.mu.Unlock()
}

// ---------------------------------------------------------------- the executor under test

type call struct {
	id      int
	h       int // hash class
	hv      int // actual hash
	fail    bool
	both    bool // a failing callee returns a value together with its error
	kd      int  // kind of what the callee hands back
	pk      int  // kind of the parameter that carries the call's identity to the callee
	pre     bool
	ctx     *vctx
	gate    chan string // "stop": the callee calls Stop itself and waits again; "end": it returns
	ended   int32       // the gate has been opened (a second entry into the callee does not wait)
	gated   bool
	status  string // idle | parked | back
	running int32  // 1: callee entered and parked on the gate; 2: callee inside Stop; 3: inside a nested call
	nested  int    // the call this callee has submitted itself and is waiting for (0: none)
}

type world struct {
	kind       string
	nl, qsize  int
	ln         *line.Line
	ml         *mline.MultiLine
	rq         *async.RunnerQ
	pc         *async.ProcChan
	wg         *sync.WaitGroup
	x          *qx.Exec
	log        *evlog
	calls      []*call // 1-based
	started    bool
	stopIssued int32 // Stop has been called by somebody
	stopFrom   int   // stress: the callee of this call calls Stop itself
	term       int32
	frag       string
	base       int
	hclass     map[int]int // actual hash -> class
	withIdx    bool
	spin       int
	nowg       bool  // runq constructed without WithWaitGroup
	cfgOK      bool  // the getters have a defined answer (queue size option not negative)
	waitingWS  int32 // WaitStop is being waited for
	waitingWG  int32 // the wait group is being waited for
	waits      int32 // waits launched
	runDone    int32 // a call of Run has returned
	lineFn     line.CallFn
	mlineFn    mline.CallFn
	callFn     func(ctx context.Context, arg int) (interface{}, error)
	salt       int // varies the kinds drawn from one world to the next
	burstN     int // calls of the long run in this world (ids maxCalls+1 ..)
	burst      struct{ inflight, overlap, entered, last, disorder, wrongLane int32 }
}

type procT struct {
	wd *world
	id int
}

func (p procT) Do(ctx context.Context) (interface{}, error) { return p.wd.callee(ctx, 0, p.id) }

const qDefault = -2 // queue size option not given at all

var worldSeq int // set from the seed, counts worlds

// typedFn: for the reflective RunnerQ.AsyncCall the function's parameter and result types are part
// of the input; a succeeding call of kind struct / pointer / string / slice goes through a function
// typed that way (its result then has that kind), everything else through func(ctx, int) interface{}.
func (wd *world) typedFn(c *call) (fn interface{}, arg interface{}) {
	id := c.id
	if !c.fail {
		switch c.kd {
		case kStruct:
			return func(ctx context.Context, a resVal) (resVal, error) {
				r, err := wd.callee(ctx, 0, a.id)
				x, _ := r.(resVal)
				return x, err
			}, resVal{id}
		case kPtr:
			return func(ctx context.Context, a *resVal) (*resVal, error) {
				r, err := wd.callee(ctx, 0, a.id)
				x, _ := r.(*resVal)
				return x, err
			}, &resVal{id}
		case kString:
			return func(ctx context.Context, a string) (string, error) {
				_, n, _ := decodeValue(a)
				r, err := wd.callee(ctx, 0, n)
				x, _ := r.(string)
				return x, err
			}, mkValue(kString, id)
		case kSlice:
			return func(ctx context.Context, a []int) ([]int, error) {
				_, n, _ := decodeValue(a)
				r, err := wd.callee(ctx, 0, n)
				x, _ := r.([]int)
				return x, err
			}, mkValue(kSlice, id)
		}
	}
	return wd.callFn, id
}

// specQ is the queue size as the specification sees it: "not bounded" is 0, and a bound TLC cannot
// hold (top of the integer range) is carried as 1000000 - far above anything 12 calls can fill.
func specQ(qopt int) int {
	switch {
	case qopt == qDefault:
		return 8192
	case qopt < 0:
		return 0
	case qopt > 1000000:
		return 1000000
	}
	return qopt
}

// newWorld constructs the executor and opens its trace.  qopt is the queue size option as passed
// (0, small, -1, math.MaxInt, or qDefault for "no option").
func newWorld(w *tr.W, src, kind string, nl, qopt int, withIdx, nowg bool) *world {
	wd := &world{kind: kind, nl: nl, qsize: specQ(qopt), wg: &sync.WaitGroup{}, withIdx: withIdx,
		nowg: nowg && kind == "runq", log: &evlog{w: w, gids: map[int]int{}}, hclass: map[int]int{}}
	w.Emit(tr.E{"ev": "reset", "kind": kind, "nl": nl, "qsize": wd.qsize, "src": src, "idx": withIdx,
		"qopt": strconv.Itoa(qopt), "nowg": wd.nowg})
	switch kind {
	case "line":
		opts := []line.Option{line.WithName("c14")}
		if qopt != qDefault {
			opts = append(opts, line.WithQSize(qopt))
		}
		wd.ln = line.NewLine(wd.wg, opts...)
		wd.frag = "neptune/syncx/pipe/line."
	case "mline":
		opts := []pipe.Option{pipe.WithSlotSize(nl)}
		if qopt != qDefault {
			opts = append(opts, pipe.WithQSize(qopt))
		}
		wd.ml = mline.NewMultiLine(opts...)
		wd.frag = "neptune/syncx/pipe/mline."
	case "runq", "pchan":
		opts := []async.Option{async.WithName("c14")}
		if qopt != qDefault {
			opts = append(opts, async.WithQSize(qopt))
		}
		if !wd.nowg {
			opts = append(opts, async.WithWaitGroup(wd.wg))
		}
		if kind == "runq" {
			wd.rq = async.NewRunnerQ(opts...)
		} else {
			wd.pc = async.NewProcChan(opts...)
		}
		wd.frag = "neptune/syncx/pipe/async."
	default:
		tr.Fatal("unknown kind %q", kind)
	}
	wd.calls = make([]*call, maxCalls+1)
	for i := 1; i <= maxCalls; i++ {
		id := i
		wd.calls[i] = &call{id: i, ctx: newCtx(i), gate: make(chan string), status: "idle"}
		wd.calls[i].ctx.onHold = func() { wd.log.add(tr.E{"ev": "held", "c": id}) }
	}
	// one function value per executor, used for every call like a caller would (the call's identity
	// travels in the parameter)
	wd.lineFn = func(ctx context.Context, req interface{}) (interface{}, error) {
		_, id, _ := decodeValue(req)
		return wd.callee(ctx, 0, id)
	}
	wd.mlineFn = func(ctx context.Context, idx int, req interface{}) (interface{}, error) {
		_, id, _ := decodeValue(req)
		return wd.callee(ctx, idx, id)
	}
	worldSeq++
	wd.salt = worldSeq
	wd.callFn = func(ctx context.Context, arg int) (interface{}, error) { return wd.callee(ctx, 0, arg) }
	wd.base = wd.pkgGoroutines()
	return wd
}

// finish closes the trace of this world.
func (wd *world) finish() {
	wd.log.mu.Lock()
	wd.log.closed = true
	wd.log.mu.Unlock()
}

// callee is what every executor is asked to run.
func (wd *world) callee(ctx context.Context, lane int, id int) (interface{}, error) {
	if id > maxCalls && id <= maxCalls+wd.burstN { // a call of a long run: counted, not logged one by one
		b := &wd.burst
		if atomic.AddInt32(&b.inflight, 1) > 1 {
			atomic.AddInt32(&b.overlap, 1)
		}
		atomic.AddInt32(&b.entered, 1)
		if int(atomic.SwapInt32(&b.last, int32(id))) >= id {
			atomic.AddInt32(&b.disorder, 1)
		}
		if wd.kind == "mline" && lane != wd.ml.IndexOf(wd.burstHash(id)) {
			atomic.AddInt32(&b.wrongLane, 1)
		}
		atomic.AddInt32(&b.inflight, -1)
		return id, nil
	}
	if id < 1 || id > maxCalls {
		// the executor handed the callee a parameter nobody submitted: an observation, not a harness error
		wd.log.add(tr.E{"ev": "bad", "what": "callee entered with a parameter that is no call id", "lane": clamp(lane)})
		return nil, resErr{0}
	}
	c := wd.calls[id]
	wd.log.addStart(id, lane, goid())
	if c.gated {
		for atomic.LoadInt32(&c.ended) == 0 {
			atomic.StoreInt32(&c.running, 1)
			cmd := <-c.gate
			if cmd == "stop" { // an actor handling its own shutdown command
				atomic.StoreInt32(&c.running, 2)
				wd.doStop(id)
				continue
			}
			if cmd == "nest" { // an actor calling into its own executor and waiting for the answer
				atomic.StoreInt32(&c.running, 3)
				n := wd.calls[c.nested]
				r := wd.submit(n)
				n.status = "back"
				wd.log.add(tr.E{"ev": "ret", "c": n.id, "r": r})
				c.nested = 0
				continue
			}
			break
		}
		atomic.StoreInt32(&c.running, 0)
	} else {
		if wd.stopFrom == id {
			wd.doStop(id)
		}
		for i := 0; i < wd.spin; i++ {
			runtime.Gosched()
		}
	}
	wd.log.add(tr.E{"ev": "end", "c": id})
	if c.fail {
		if c.both {
			return resVal{id}, resErr{id}
		}
		return nil, wd.mkError(c.kd, id)
	}
	return mkValue(c.kd, id), nil
}

func clamp(x int) int {
	if x > 1000000 || x < -1000000 {
		return -1000000 // keeps the event int32-safe; any out-of-range index is inexplicable anyway
	}
	return x
}

// callerSubmit is submit on a goroutine of the harness that is nothing but a caller; its frame is how
// pkgGoroutines tells such callers from the executor's own goroutines (a callee that calls into its
// executor uses submit directly: it is a lane goroutine).
//
//go:noinline
func (wd *world) callerSubmit(c *call) tr.E {
	atomic.StoreInt64(&c.ctx.owner, int64(goid()))
	return wd.submit(c)
}

// submit performs the call of caller c on the real executor and classifies the reply.
func (wd *world) submit(c *call) (rep tr.E) {
	defer func() {
		if p := recover(); p != nil {
			rep = tr.E{"k": "panic", "v": 0, "e": false, "kd": 0, "msg": fmt.Sprint(p)}
		}
	}()
	var v interface{}
	var err error
	id := c.id
	switch wd.kind {
	case "line":
		v, err = wd.ln.AsyncCall(c.ctx, line.NewCallCtx(wd.lineFn, mkValue(c.pk, id)))
	case "mline":
		v, err = wd.ml.AsyncCall(c.ctx, mline.NewCallCtx(c.hv, wd.mlineFn, mkValue(c.pk, id)))
	case "runq":
		switch id % 3 {
		case 0: // reflective call: function types with typed parameter and result
			fn, arg := wd.typedFn(c)
			v, err = wd.rq.AsyncCall(fn, c.ctx, arg)
		case 1:
			v, err = wd.rq.AsyncDelegate(c.ctx, func(ctx context.Context) (interface{}, error) {
				return wd.callee(ctx, 0, id)
			})
		default:
			v, err = wd.rq.AsyncProc(c.ctx, procT{wd, id})
		}
	case "pchan":
		v, err = wd.pc.AsyncProc(c.ctx, procT{wd, id})
	}
	return wd.classify(c, v, err)
}

// classify renders a reply: kind and identity are read from what came back, never from what was
// expected.  ctxOf maps a context identity to the call asking (contexts may be shared by calls).
func (wd *world) classify(c *call, v interface{}, err error) (rep tr.E) {
	defer scribble(v)
	R := func(k string, id int, e bool, kd int) tr.E { return tr.E{"k": k, "v": id, "e": e, "kd": kd} }
	other := func(msg string) tr.E { return tr.E{"k": "other", "v": 0, "e": false, "kd": 0, "msg": msg} }
	vk, vid, vok := decodeValue(v)
	if err == nil {
		if vok {
			return R("res", vid, false, vk)
		}
		return other(fmt.Sprintf("%#v", v))
	}
	// a failing callee may hand back a value too; an executor may pass it on or drop it, but it must
	// be the value of the same call
	with := func(id int) bool { return v == nil || (vok && vk < 10 && vid == id) }
	ownClosed, ownFull := error(pipe.ErrQueueClosed), error(pipe.ErrQueueFull)
	if wd.kind == "runq" || wd.kind == "pchan" {
		ownClosed, ownFull = async.ErrClosed, async.ErrFull
	}
	var we resErr
	switch e := err.(type) {
	case resErr:
		if with(e.id) {
			return R("res", e.id, true, eVal)
		}
	case *resErrP:
		if e == nil && v == nil {
			return R("res", 0, true, eNilPtr)
		}
		if e != nil && with(e.id) {
			return R("res", e.id, true, ePtr)
		}
	case ctxErr:
		if v == nil {
			if e.id == c.ctx.id { // its own context (which it may share with other calls)
				return R("ctx", c.id, false, 0)
			}
			return R("ctx", -e.id, false, 0) // somebody else's
		}
	}
	if v != nil {
		return other(fmt.Sprintf("value %#v with error %v", v, err))
	}
	switch {
	case err == ownFull:
		return R("full", 0, false, 0)
	case err == ownClosed:
		return R("closed", 0, false, 0)
	case err == context.Canceled:
		return R("sent", eCanceled, true, eCanceled)
	case err == context.DeadlineExceeded:
		return R("sent", eDeadline, true, eDeadline)
	case err == q.ErrClosed:
		return R("sent", eQClosed, true, eQClosed)
	case err == async.ErrSync:
		return R("sent", eSync, true, eSync)
	case errors.Is(err, ownClosed):
		return R("sent", eWrapClosed, true, eWrapClosed)
	case errors.As(err, &we):
		return R("res", we.id, true, eWrap)
	}
	return other(err.Error())
}

// mkError renders the error of a failing callee in kind kd.
func (wd *world) mkError(kd, id int) error {
	ownClosed, ownFull := error(pipe.ErrQueueClosed), error(pipe.ErrQueueFull)
	if wd.kind == "runq" || wd.kind == "pchan" {
		ownClosed, ownFull = async.ErrClosed, async.ErrFull
	}
	switch kd {
	case ePtr:
		return &resErrP{id}
	case eWrap:
		return fmt.Errorf("wrapped: %w", resErr{id})
	case eNilPtr:
		return (*resErrP)(nil)
	case eClosed:
		return ownClosed
	case eFull:
		return ownFull
	case eCanceled:
		return context.Canceled
	case eDeadline:
		return context.DeadlineExceeded
	case eQClosed:
		return q.ErrClosed
	case eSync:
		return async.ErrSync
	case eWrapClosed:
		return fmt.Errorf("lower layer: %w", ownClosed)
	}
	return resErr{id}
}

// oops turns a panic of an owner's call (Run, Stop) into an event of its own kind the spec rejects.
func (wd *world) oops(what string) {
	if p := recover(); p != nil {
		wd.log.add(tr.E{"ev": "bad", "what": "panic in " + what + ": " + fmt.Sprint(p), "lane": 0})
	}
}

func (wd *world) doRun() {
	defer wd.oops("Run")
	wd.log.add(tr.E{"ev": "run"})
	wd.started = true
	switch wd.kind {
	case "line":
		wd.ln.Run()
	case "mline":
		wd.ml.Run()
	case "runq":
		wd.rq.Run()
	case "pchan":
		wd.pc.Run()
	}
	atomic.StoreInt32(&wd.runDone, 1)
	wd.await()
}

// await launches the owner's waits for termination, each once and each on a goroutine of its own;
// `term` is logged when one returns.  The signals are the wait group (line, pchan, runq unless
// constructed without one) and WaitStop (mline, runq).  A wait group only counts from Run on, so it
// is waited for after Run has returned; WaitStop may be called at any time (early).
func (wd *world) await() {
	watch := func(flag *int32, sig string, wait func() error) {
		if !atomic.CompareAndSwapInt32(flag, 0, 1) {
			return
		}
		atomic.AddInt32(&wd.waits, 1)
		go func() {
			if err := wait(); err != nil {
				wd.log.add(tr.E{"ev": "bad", "what": sig + ": " + err.Error(), "lane": 0})
				return
			}
			wd.log.add(tr.E{"ev": "term", "sig": sig})
			atomic.AddInt32(&wd.term, 1)
		}()
	}
	switch wd.kind {
	case "mline":
		watch(&wd.waitingWS, "waitstop", func() error { return wd.ml.WaitStop(context.Background()) })
	case "runq":
		watch(&wd.waitingWS, "waitstop", func() error { wd.rq.WaitStop(); return nil })
	}
	if atomic.LoadInt32(&wd.runDone) == 1 && wd.kind != "mline" && !wd.nowg {
		watch(&wd.waitingWG, "wg", func() error { wd.wg.Wait(); return nil })
	}
}

// terminated: every wait launched so far has returned (and there is one).
func (wd *world) terminated() bool {
	n := atomic.LoadInt32(&wd.waits)
	return n > 0 && atomic.LoadInt32(&wd.term) == n
}

// cfg logs what the getters report.
func (wd *world) cfg() {
	e := tr.E{"ev": "cfg", "nl": 1, "q": 0}
	switch wd.kind {
	case "line":
		e["q"] = specQ(wd.ln.QSize())
	case "mline":
		e["nl"], e["q"] = clamp(wd.ml.SlotSize()), specQ(wd.ml.QSize())
	case "runq":
		e["q"] = specQ(wd.rq.Size())
	case "pchan":
		e["q"] = specQ(wd.pc.Size())
	}
	wd.log.add(e)
}

// doStop calls Stop on the calling goroutine (a harness worker, a stress goroutine or a callee);
// `stopr` is logged only when Stop has returned.
func (wd *world) doStop(by int) {
	defer wd.oops("Stop")
	atomic.StoreInt32(&wd.stopIssued, 1)
	wd.log.add(tr.E{"ev": "stopi", "by": by})
	switch wd.kind {
	case "line":
		wd.ln.Stop()
	case "mline":
		wd.ml.Stop()
	case "runq":
		wd.rq.Stop()
	case "pchan":
		wd.pc.Stop()
	}
	wd.log.add(tr.E{"ev": "stopr", "by": by})
}

// prepare fixes the parameters of call c and logs its invocation (and, once per hash class, what
// MultiLine.IndexOf says about it).
func (wd *world) prepare(c *call, hv int, fail, pre, gated bool) bool {
	mix := c.id*31 + wd.salt*17 + (hv&0xffff)*7
	if mix < 0 {
		mix = -mix
	}
	if fail {
		c.kd = errorKinds[mix%len(errorKinds)]
	} else {
		c.kd = valueKinds[mix%len(valueKinds)]
	}
	c.pk = []int{kInt, kStruct, kPtr, kString, kSlice, kMap, kFunc}[(mix/13)%7]
	c.both = fail && c.kd == eVal && (c.id+hv)%2 == 0
	cl, ok := wd.hclass[hv]
	if !ok {
		if len(wd.hclass) >= maxHashes {
			return false
		}
		cl = len(wd.hclass) + 1
		wd.hclass[hv] = cl
		if wd.kind == "mline" && wd.withIdx {
			wd.log.add(tr.E{"ev": "idx", "h": cl, "r": clamp(wd.ml.IndexOf(hv)), "hv": strconv.Itoa(hv)})
		}
	}
	c.h, c.hv, c.fail, c.pre, c.gated = cl, hv, fail, pre, gated
	if pre {
		c.ctx.cancel()
		if !gated { // free-running: the submitter dawdles before it looks at its context
			c.ctx.yield = 5 + (c.id*13+cl*7)%40
		}
	}
	wd.log.add(tr.E{"ev": "inv", "c": c.id, "h": cl, "fail": fail, "pre": pre, "kd": c.kd, "hv": strconv.Itoa(hv)})
	return true
}

// pkgGoroutines counts the goroutines that are inside the executor's package without being a
// caller of this harness: the executor's own goroutines (consumers, MultiLine's exit signaller).
// No function name of the package is assumed.
func (wd *world) pkgGoroutines() int {
	buf := make([]byte, 1<<20)
	for {
		n := runtime.Stack(buf, true)
		if n < len(buf) {
			buf = buf[:n]
			break
		}
		buf = make([]byte, 2*len(buf))
	}
	cnt := 0
	for _, blk := range strings.Split(string(buf), "\n\n") {
		if strings.Contains(blk, wd.frag) && !strings.Contains(blk, "main.(*world).callerSubmit(") {
			cnt++
		}
	}
	return cnt
}

// alive: some goroutine of the executor is left.
func (wd *world) alive() bool { return wd.pkgGoroutines()-wd.base > 0 }

// ---------------------------------------------------------------- step mode

type act struct {
	Op    string `json:"op"`
	C     int    `json:"c"`
	H     int    `json:"h"`
	Fail  bool   `json:"fail"`
	Pre   bool   `json:"pre"`
	Slow  bool   `json:"slow"`  // the submitter is held in its first Done() until a `done` step
	Share bool   `json:"share"` // the call is made with the context of the previous call (one ctx, several calls)
	By    int    `json:"by"`
	Kind  string `json:"kind"`
	Nl    int    `json:"nl"`
	Qsize int    `json:"qsize"`
}

// atGate returns the lowest call whose callee is parked on its gate (0: none).
func (wd *world) atGate() int {
	for i := 1; i <= maxCalls; i++ {
		if atomic.LoadInt32(&wd.calls[i].running) == 1 {
			return i
		}
	}
	return 0
}

// held returns the lowest call whose submitter is parked in Done() (0: none).
func (wd *world) held() int {
	for i := 1; i <= maxCalls; i++ {
		if atomic.LoadInt32(&wd.calls[i].ctx.holding) == 1 {
			return i
		}
	}
	return 0
}

func (wd *world) applicable(a act) bool {
	switch a.Op {
	case "done": // the submitter of call C (0: whichever is held) gets to look at its context
		if a.C == 0 {
			return wd.held() != 0
		}
		return a.C >= 1 && a.C <= maxCalls && atomic.LoadInt32(&wd.calls[a.C].ctx.holding) == 1
	case "run":
		return !wd.started
	case "stopi":
		if a.By == 0 {
			return !wd.x.Busy(stopper)
		}
		return a.By >= 1 && a.By <= maxCalls && atomic.LoadInt32(&wd.calls[a.By].running) == 1
	case "inv":
		return a.C >= 1 && a.C <= maxCalls && wd.calls[a.C].status == "idle"
	case "end": // C = 0: whichever call is running
		if a.C == 0 {
			return wd.atGate() != 0
		}
		return a.C >= 1 && a.C <= maxCalls && atomic.LoadInt32(&wd.calls[a.C].running) == 1
	case "cancel":
		return a.C >= 1 && a.C <= maxCalls && wd.calls[a.C].status != "idle" && !wd.calls[a.C].ctx.ended()
	case "nest": // the callee of running call By (0: whichever is running) submits call C itself
		if a.By == 0 {
			a.By = wd.atGate()
		}
		return a.By >= 1 && a.By <= maxCalls && atomic.LoadInt32(&wd.calls[a.By].running) == 1 &&
			a.C >= 1 && a.C <= maxCalls && wd.calls[a.C].status == "idle"
	case "cfg":
		return wd.cfgOK
	case "wait": // the owner starts waiting for termination before Run
		return !wd.started && (wd.kind == "mline" || wd.kind == "runq")
	}
	return false
}

func (wd *world) step(a act) {
	switch a.Op {
	case "done":
		if a.C == 0 {
			a.C = wd.held()
		}
		wd.log.add(tr.E{"ev": "look", "c": a.C})
		wd.calls[a.C].ctx.hold <- struct{}{}
	case "run":
		wd.doRun()
	case "stopi": // never on the driver: Stop may legitimately wait for the lanes
		if a.By == 0 {
			wd.x.Issue(stopper, func() interface{} { wd.doStop(0); return 0 })
		} else {
			wd.calls[a.By].gate <- "stop"
		}
	case "inv":
		c := wd.calls[a.C]
		if a.Share && !a.Pre && !a.Slow && a.C > 1 {
			// the same context argument for several calls, as a request handler fanning out would do
			if prev := wd.calls[a.C-1]; prev.status != "idle" && atomic.LoadInt32(&prev.ctx.slow) == 0 {
				c.ctx = prev.ctx
				a.Pre = c.ctx.ended()
			}
		}
		if !wd.prepare(c, a.H, a.Fail, a.Pre, true) {
			return
		}
		c.status = "parked"
		if a.Slow {
			atomic.StoreInt32(&c.ctx.slow, 1)
		}
		wd.x.Issue(c.id, func() interface{} { return wd.callerSubmit(c) })
	case "end":
		if a.C == 0 {
			a.C = wd.atGate()
		}
		atomic.StoreInt32(&wd.calls[a.C].ended, 1)
		wd.calls[a.C].gate <- "end"
	case "cancel": // ends the context of call C - and so of every call made with that context
		for i := 1; i <= maxCalls; i++ {
			if m := wd.calls[i]; m.ctx == wd.calls[a.C].ctx && m.status != "idle" {
				wd.log.add(tr.E{"ev": "cancel", "c": i})
			}
		}
		wd.calls[a.C].ctx.cancel()
	case "nest":
		if a.By == 0 {
			a.By = wd.atGate()
		}
		c := wd.calls[a.C]
		if !wd.prepare(c, a.H, a.Fail, a.Pre, true) {
			return
		}
		c.status = "nested"
		wd.calls[a.By].nested = c.id
		wd.calls[a.By].gate <- "nest"
	case "cfg":
		wd.cfg()
	case "wait":
		wd.await()
	}
	wd.settle()
}

func (wd *world) settle() {
	// (a parked goroutine is an observation; only "still running after the budget" is inconclusive)
	if err := wd.x.Settle(); err != nil {
		tr.Fatal("%v", err)
	}
	for i := 1; i <= maxCalls; i++ {
		c := wd.calls[i]
		if c.status != "parked" {
			continue
		}
		if r, ok := wd.x.Take(i); ok {
			c.status = "back"
			wd.log.add(tr.E{"ev": "ret", "c": i, "r": r.(tr.E)})
		}
	}
	wd.x.Take(stopper)
	wd.quiet(false)
}

func (wd *world) quiet(final bool) {
	wd.log.add(tr.E{"ev": "quiet", "alive": wd.alive(), "term": wd.terminated(), "final": final})
}

// drain ends the plan: consumers started, every gate opened, executor stopped - so that the last
// `quiet` shows whether every accepted call completed and every lane goroutine left.
func (wd *world) drain() {
	if !wd.started {
		wd.step(act{Op: "run"})
	}
	for round := 0; round < 8*maxCalls; round++ {
		found := false
		for i := 1; i <= maxCalls; i++ {
			c := wd.calls[i]
			if atomic.LoadInt32(&c.running) == 1 {
				wd.step(act{Op: "end", C: i})
				found = true
				break
			}
			if atomic.LoadInt32(&c.ctx.holding) == 1 {
				wd.step(act{Op: "done", C: i})
				found = true
				break
			}
			// a callee waiting for a call it queued behind itself is released through that call's context
			if n := c.nested; atomic.LoadInt32(&c.running) == 3 && n != 0 && !wd.calls[n].ctx.ended() &&
				atomic.LoadInt32(&wd.calls[n].running) == 0 {
				wd.step(act{Op: "cancel", C: n})
				found = true
				break
			}
		}
		if !found {
			if atomic.LoadInt32(&wd.stopIssued) == 0 {
				wd.step(act{Op: "stopi"})
				continue
			}
			break
		}
	}
	// consumers started, Stop called, every gate a callee reached opened: what is parked now stays
	// parked.  The spec decides whether this is a proper end (Final).
	wd.quiet(true)
	wd.x.Stop()
	wd.finish()
}

func runPlan(w *tr.W, src, kind string, nl, qopt int, withIdx, nowg bool, plan []act) {
	wd := newWorld(w, src, kind, nl, qopt, withIdx, nowg)
	wd.cfgOK = qopt >= 0 || qopt == qDefault
	wd.x = qx.New(maxCalls + 1)
	tlc := strings.HasPrefix(src, "plan:")
	age := map[int]int{}
	for _, a := range plan {
		if tlc && a.Op == "inv" && a.Pre && a.C%2 == 0 {
			a.Slow = true // TLC's plans know no slow submitter: every other pre-ended call gets one
		}
		if !wd.applicable(a) {
			continue // the verdict is about what is recorded; skipping only loses coverage
		}
		wd.step(a)
		if tlc { // ... who looks at its context two steps later
			for i := 1; i <= maxCalls; i++ {
				if atomic.LoadInt32(&wd.calls[i].ctx.holding) == 1 {
					if age[i]++; age[i] > 2 {
						wd.step(act{Op: "done", C: i})
					}
				}
			}
		}
	}
	wd.drain()
}

// modelHash maps the 4-bit model integers of Lanes_Gen.cfg to the integers they stand for.
func modelHash(h int) int {
	switch h {
	case -8:
		return math.MinInt
	case -7:
		return math.MinInt + 1
	case 7:
		return math.MaxInt
	}
	return h
}

func hashPool(rng *rand.Rand, nl int) []int {
	pool := []int{0, 1, -1, nl, -nl, math.MaxInt, math.MinInt, math.MinInt + 1, math.MaxInt - 1,
		2, -2, nl + 1, -nl - 1, int(rng.Int63()), -int(rng.Int63()), int(rng.Int31()), -int(rng.Int31())}
	rng.Shuffle(len(pool), func(i, j int) { pool[i], pool[j] = pool[j], pool[i] })
	return pool[:maxHashes]
}

// randPlan draws a schedule; steps that turn out not to be applicable are skipped by the executor.
func randPlan(rng *rand.Rand, nl, n int) []act {
	pool := hashPool(rng, nl)
	var out []act
	next := 1
	if rng.Intn(6) == 0 {
		out = append(out, act{Op: "wait"}) // the owner waits for termination before anything else
	}
	// openings: consumers first (usual), nothing, Stop before Run, calls accepted and then Stop
	// before Run, Stop right after Run
	switch x := rng.Intn(20); {
	case x < 11:
		out = append(out, act{Op: "run"})
	case x < 13:
	case x < 15:
		out = append(out, act{Op: "stopi"})
	case x < 18:
		for n := 1 + rng.Intn(3); n > 0; n-- {
			out = append(out, act{Op: "inv", C: next, H: pool[rng.Intn(len(pool))], Fail: rng.Intn(3) == 0})
			next++
		}
		out = append(out, act{Op: "stopi"}, act{Op: "run"})
	default:
		out = append(out, act{Op: "run"}, act{Op: "stopi"})
	}
	for i := 0; i < n; i++ {
		switch x := rng.Intn(114); {
		case x >= 108 && next <= maxCalls:
			// a submitter with an already ended context that is slow to look at it, on a lane that has
			// just answered another call: by then its own answer (or skip) is there too
			h := pool[rng.Intn(len(pool))]
			if rng.Intn(2) == 0 {
				// a submitter slow to look at its context whose call was accepted and answered and whose
				// executor was stopped (and has drained) before it looks: result and shutdown are both there
				out = append(out, act{Op: "inv", C: next, H: h, Slow: true, Fail: rng.Intn(3) == 0}, act{Op: "end", C: next},
					act{Op: "stopi"}, act{Op: "done", C: next})
				next++
				break
			}
			if rng.Intn(2) == 0 && next+1 <= maxCalls {
				out = append(out, act{Op: "inv", C: next, H: h, Fail: rng.Intn(2) == 0}, act{Op: "end", C: next})
				next++
			}
			out = append(out, act{Op: "inv", C: next, H: h, Pre: true, Slow: true}, act{Op: "end", C: next}, act{Op: "done", C: next})
			next++
		case x >= 105:
			out = append(out, act{Op: "done"})
		case x >= 103:
			out = append(out, act{Op: "cfg"})
		case x >= 100 && next <= maxCalls: // a running callee calls into its own executor
			out = append(out, act{Op: "nest", By: 0, C: next, H: pool[rng.Intn(len(pool))], Pre: rng.Intn(3) == 0})
			next++
		case x < 35 && next <= maxCalls:
			pre := rng.Intn(8) == 0
			out = append(out, act{Op: "inv", C: next, H: pool[rng.Intn(len(pool))], Fail: rng.Intn(3) == 0, Pre: pre,
				Slow: rng.Intn(8) == 0 || (pre && rng.Intn(2) == 0), Share: rng.Intn(7) == 0})
			next++
		case x < 70:
			out = append(out, act{Op: "end", C: rng.Intn(maxCalls+1) * rng.Intn(2)}) // a given call or any
		case x < 85:
			out = append(out, act{Op: "cancel", C: rng.Intn(maxCalls) + 1})
		case x < 90:
			out = append(out, act{Op: "run"})
		case x < 94:
			by := 0
			if rng.Intn(3) == 0 {
				by = rng.Intn(maxCalls) + 1 // the callee of that call, if it is running then
			}
			if rng.Intn(3) == 0 && next <= maxCalls { // Stop with one lane filled to the brim (and over)
				h := pool[rng.Intn(len(pool))]
				for n := 2 + rng.Intn(4); n > 0 && next <= maxCalls; n-- {
					out = append(out, act{Op: "inv", C: next, H: h})
					next++
				}
			}
			out = append(out, act{Op: "stopi", By: by})
			if rng.Intn(2) == 0 { // submissions right behind the shutdown, then the running calls return
				for n := 1 + rng.Intn(3); n > 0 && next <= maxCalls; n-- {
					out = append(out, act{Op: "inv", C: next, H: pool[rng.Intn(len(pool))]})
					next++
				}
				for n := 1 + rng.Intn(3); n > 0; n-- {
					out = append(out, act{Op: "end"})
				}
			}
		default:
			if next <= maxCalls { // burst: fill a lane
				h := pool[rng.Intn(len(pool))]
				for n := 3 + rng.Intn(3); n > 0 && next <= maxCalls; n-- {
					out = append(out, act{Op: "inv", C: next, H: h, Fail: false, Pre: false})
					next++
				}
			}
		}
	}
	return out
}

func readPlan(path string) []act {
	f, err := os.Open(path)
	if err != nil {
		tr.Fatal("%v", err)
	}
	defer f.Close()
	var out []act
	sc := bufio.NewScanner(f)
	sc.Buffer(make([]byte, 1<<20), 1<<20)
	for sc.Scan() {
		var raw map[string]json.RawMessage
		if err := json.Unmarshal(sc.Bytes(), &raw); err != nil {
			tr.Fatal("plan %s: %v", path, err)
		}
		var op string
		_ = json.Unmarshal(raw["op"], &op)
		switch op {
		case "init", "run", "stopi", "inv", "end", "cancel":
			// `r` of internal records is a string or a record; external ones have no `r`
			var a act
			delete(raw, "r")
			delete(raw, "l")
			bs, _ := json.Marshal(raw)
			if err := json.Unmarshal(bs, &a); err != nil {
				tr.Fatal("plan %s: %v", path, err)
			}
			if a.Op == "inv" {
				a.H = modelHash(a.H)
			}
			out = append(out, a)
		}
	}
	return out
}

// ---------------------------------------------------------------- stress mode

// stopMode 0: Stop when all callers are done; 1: Stop from a goroutine of its own after a random
// number of calls; 2: the callee of a random call calls Stop itself.  A reader goroutine asks the
// getters meanwhile.
func runStress(w *tr.W, rng *rand.Rand, kind string, nl, qopt, threads, per int, stopMode int) {
	wd := newWorld(w, "stress", kind, nl, qopt, true, rng.Intn(3) == 0)
	wd.x = qx.New(0)
	wd.spin = rng.Intn(4)
	pool := hashPool(rng, nl)[:3]
	type prm struct {
		hv          int
		fail, pre   bool
		cancelAfter int // -1 never; else number of yields before a concurrent cancel
	}
	prms := make([]prm, maxCalls+1)
	for i := range prms {
		prms[i] = prm{hv: pool[rng.Intn(len(pool))], fail: rng.Intn(3) == 0, pre: rng.Intn(10) == 0, cancelAfter: -1}
		if rng.Intn(4) == 0 {
			prms[i].cancelAfter = rng.Intn(6)
		}
	}
	stopAfter := rng.Intn(threads*per + 1)
	if stopMode == 2 {
		wd.stopFrom = 1 + rng.Intn(threads*per)
	}
	reads := 0
	if qopt >= 0 {
		reads = rng.Intn(4)
	}
	var next, done int32
	var prep sync.Mutex // id allocation + inv logging are one step, so ids increase along the log
	wd.doRun()
	for t := 0; t < threads; t++ {
		go func() {
			for i := 0; i < per; i++ {
				prep.Lock()
				id := int(atomic.AddInt32(&next, 1))
				c := wd.calls[id]
				p := prms[id]
				ok := wd.prepare(c, p.hv, p.fail, p.pre, false)
				prep.Unlock()
				if !ok {
					tr.Fatal("hash classes exhausted")
				}
				if p.cancelAfter >= 0 && !p.pre {
					go func() {
						for k := 0; k < p.cancelAfter; k++ {
							runtime.Gosched()
						}
						wd.log.add(tr.E{"ev": "cancel", "c": id})
						c.ctx.cancel()
					}()
				}
				r := wd.callerSubmit(c)
				wd.log.add(tr.E{"ev": "ret", "c": id, "r": r})
				if stopMode == 1 && int(atomic.AddInt32(&done, 1)) == stopAfter {
					go wd.doStop(0)
				}
			}
		}()
	}
	go func() {
		for i := 0; i < reads; i++ {
			wd.cfg()
			runtime.Gosched()
		}
	}()
	wd.finale()
}

// finale ends a free-running world: when everything is parked, Stop is called if nobody did (never
// on this goroutine: Stop may wait, and a Stop that never returns is the spec's business), and the
// final quiescent point is logged.  No caller may be parked for ever; if one is, that `quiet`
// records a state the spec rejects.
func (wd *world) finale() {
	if err := wd.x.Settle(); err != nil {
		tr.Fatal("free-running: %v", err)
	}
	if !wd.started {
		go wd.doRun()
		if err := wd.x.Settle(); err != nil {
			tr.Fatal("free-running: %v", err)
		}
	}
	if atomic.LoadInt32(&wd.stopIssued) == 0 {
		go wd.doStop(0)
		if err := wd.x.Settle(); err != nil {
			tr.Fatal("free-running: %v", err)
		}
	}
	wd.quiet(true)
	wd.finish()
}

// ---------------------------------------------------------------- life-cycle rounds

// release starts the actions of one phase; several actions are held at a spin barrier and let go
// together, so that a fresh executor is first touched under contention.
func release(fs []func()) {
	if len(fs) == 1 {
		go fs[0]()
		return
	}
	var arrived, open int32
	for _, f := range fs {
		go func(f func()) {
			atomic.AddInt32(&arrived, 1)
			for atomic.LoadInt32(&open) == 0 {
				runtime.Gosched()
			}
			f()
		}(f)
	}
	for int(atomic.LoadInt32(&arrived)) < len(fs) {
		runtime.Gosched()
	}
	atomic.StoreInt32(&open, 1)
}

const lifeFamilies = 14
const famMicro = 99 // nobody calls: Run, then one Stop that lets every parked goroutine of the executor go at once

// ---------------------------------------------------------------- long runs and wide executors

func (wd *world) burstHash(id int) int { return id*2654435761 - 7 } // spreads the calls of a long run over the lanes

// runLong: n calls one after the other through a started, otherwise idle executor (n around the
// widths a counter, ticket or sequence number may have been narrowed to), logged as ONE event:
// how many came back with their own result, how often the callee was entered, overlaps, inversions,
// calls that ran on a lane other than IndexOf(hash).  Ordinary calls follow, so that whatever the
// run has done to the executor's state shows in the usual way.
func runLong(w *tr.W, rng *rand.Rand, kind string, nl, qopt, n int) {
	wd := newWorld(w, "long", kind, nl, qopt, true, rng.Intn(2) == 0)
	wd.x = qx.New(0)
	wd.burstN = n
	go wd.doRun()
	if err := wd.x.Settle(); err != nil {
		tr.Fatal("long: %v", err)
	}
	var own int32
	go func() {
		for i := 1; i <= n; i++ {
			id := maxCalls + i
			var v interface{}
			var err error
			ctx := context.Background()
			func() {
				defer func() { recover() }()
				switch kind {
				case "line":
					v, err = wd.ln.AsyncCall(ctx, line.NewCallCtx(wd.lineFn, id))
				case "mline":
					v, err = wd.ml.AsyncCall(ctx, mline.NewCallCtx(wd.burstHash(id), wd.mlineFn, id))
				case "runq":
					v, err = wd.rq.AsyncCall(wd.callFn, ctx, id)
				default:
					v, err = wd.pc.AsyncProc(ctx, procT{wd, id})
				}
			}()
			if x, ok := v.(int); ok && x == id && err == nil {
				own++
			}
		}
	}()
	if err := wd.x.Settle(); err != nil {
		tr.Fatal("long: %v", err)
	}
	b := &wd.burst
	wd.log.add(tr.E{"ev": "burst", "n": n, "own": int(atomic.LoadInt32(&own)), "entered": int(atomic.LoadInt32(&b.entered)),
		"overlap": int(b.overlap), "disorder": int(b.disorder), "wronglane": int(b.wrongLane)})
	pool := hashPool(rng, nl)[:3]
	var next int32
	var prep sync.Mutex
	var C []func()
	for k := 2; k > 0; k-- {
		hv, fail := pool[rng.Intn(len(pool))], rng.Intn(3) == 0
		C = append(C, func() {
			prep.Lock()
			id := int(atomic.AddInt32(&next, 1))
			c := wd.calls[id]
			wd.prepare(c, hv, fail, false, false)
			prep.Unlock()
			r := wd.callerSubmit(c)
			wd.log.add(tr.E{"ev": "ret", "c": id, "r": r})
		})
	}
	release(C)
	wd.finale()
}

// ---------------------------------------------------------------- Stop races, one compact event per round

// raceRound: a fresh, started executor; `stoppers` goroutines are released together, each calls
// Stop and, as soon as ITS Stop has returned, submits one call (to a lane in the upper half, where a
// Stop that closes the lanes one after the other arrives last).  After a Stop that has returned no
// call may be accepted or executed - whichever Stop it was.  Counted: calls that came back with
// their own result (accepted), callee entries (executed), replies that are neither that nor
// "closed" (other), goroutines (stoppers, the wait for termination) that did not come back within
// the watchdog's time (stuck).  The lanes may be far more than the specification models: only the
// counts are logged.
func raceRound(kind string, nl, stoppers int, hvs []int) (accepted, executed, other, stuck int) {
	var wg sync.WaitGroup
	var entered int32
	var run, stop func()
	var submit func(hv, id int) (interface{}, error)
	var waitTerm func()
	ctx := context.Background()
	switch kind {
	case "line":
		ln := line.NewLine(&wg, line.WithQSize(8))
		fn := func(ctx context.Context, req interface{}) (interface{}, error) {
			atomic.AddInt32(&entered, 1)
			return req, nil
		}
		run, stop, waitTerm = ln.Run, ln.Stop, wg.Wait
		submit = func(hv, id int) (interface{}, error) { return ln.AsyncCall(ctx, line.NewCallCtx(fn, id)) }
	case "mline":
		ml := mline.NewMultiLine(pipe.WithSlotSize(nl), pipe.WithQSize(8))
		fn := func(ctx context.Context, idx int, req interface{}) (interface{}, error) {
			atomic.AddInt32(&entered, 1)
			return req, nil
		}
		run, stop = ml.Run, ml.Stop
		waitTerm = func() { _ = ml.WaitStop(ctx) }
		submit = func(hv, id int) (interface{}, error) { return ml.AsyncCall(ctx, mline.NewCallCtx(hv, fn, id)) }
	case "runq":
		rq := async.NewRunnerQ(async.WithQSize(8), async.WithWaitGroup(&wg))
		run, stop = rq.Run, rq.Stop
		waitTerm = func() { rq.WaitStop(); wg.Wait() }
		submit = func(hv, id int) (interface{}, error) {
			return rq.AsyncDelegate(ctx, func(ctx context.Context) (interface{}, error) {
				atomic.AddInt32(&entered, 1)
				return id, nil
			})
		}
	default:
		pc := async.NewProcChan(async.WithQSize(8), async.WithWaitGroup(&wg))
		run, stop, waitTerm = pc.Run, pc.Stop, wg.Wait
		submit = func(hv, id int) (interface{}, error) { return pc.AsyncProc(ctx, raceProc{&entered, id}) }
	}
	run()
	var acc, oth, back int32
	fs := make([]func(), stoppers)
	for i := range fs {
		i := i
		fs[i] = func() {
			defer atomic.AddInt32(&back, 1)
			defer func() {
				if recover() != nil {
					atomic.AddInt32(&oth, 1)
				}
			}()
			stop()
			v, err := submit(hvs[i], 1000+i)
			switch {
			case err == nil && v == interface{}(1000+i):
				atomic.AddInt32(&acc, 1)
			case err == pipe.ErrQueueClosed || err == async.ErrClosed:
			default:
				atomic.AddInt32(&oth, 1)
			}
		}
	}
	release(fs)
	go func() { waitTerm(); atomic.AddInt32(&back, 1) }()
	// a watchdog, not an oracle: everything above takes microseconds; what has not come back after
	// seconds is reported as stuck
	deadline := time.Now().Add(5 * time.Second)
	for int(atomic.LoadInt32(&back)) < stoppers+1 && time.Now().Before(deadline) {
		runtime.Gosched()
	}
	return int(atomic.LoadInt32(&acc)), int(atomic.LoadInt32(&entered)), int(atomic.LoadInt32(&oth)),
		stoppers + 1 - int(atomic.LoadInt32(&back))
}

type raceProc struct {
	entered *int32
	id      int
}

func (p raceProc) Do(ctx context.Context) (interface{}, error) {
	atomic.AddInt32(p.entered, 1)
	return p.id, nil
}

// runRaces: one trace per (kind, lane count): `n` rounds, one `late` event each.
func runRaces(w *tr.W, rng *rand.Rand, kind string, nl, n int) {
	mnl := nl
	if kind != "mline" {
		mnl = 1
	}
	w.Emit(tr.E{"ev": "reset", "kind": kind, "nl": mnl, "qsize": 8, "src": "race", "idx": false, "qopt": "8", "nowg": false})
	for i := 0; i < n; i++ {
		stoppers := 2 + rng.Intn(2)
		hvs := make([]int, stoppers)
		for k := range hvs {
			hvs[k] = mnl/2 + rng.Intn(mnl-mnl/2)
			if rng.Intn(4) == 0 {
				hvs[k] = -hvs[k]
			}
		}
		a, e, o, st := raceRound(kind, mnl, stoppers, hvs)
		w.Emit(tr.E{"ev": "late", "stoppers": stoppers, "accepted": a, "executed": e, "other": o, "stuck": st})
	}
}

// runWide: a MultiLine with far more lanes than the specification models (counts around the default
// 509 and around powers of two).  No call is made (a call could land on a lane that is not
// modelled); what is observed is IndexOf for the boundary hashes - in range for that lane count -,
// the getters, and the life cycle: Run, then one Stop that releases all those consumers at once,
// termination and nothing left behind.
func runWide(w *tr.W, rng *rand.Rand, nl int) {
	wd := newWorld(w, "wide", "mline", nl, []int{1, 8, qDefault}[rng.Intn(3)], true, false)
	wd.x = qx.New(0)
	hs := []int{0, 1, -1, nl, -nl, nl - 1, 1 - nl, nl + 1, math.MaxInt, math.MinInt, math.MinInt + 1, int(rng.Int63()), -int(rng.Int63())}
	rng.Shuffle(len(hs), func(i, j int) { hs[i], hs[j] = hs[j], hs[i] })
	for i, hv := range hs[:maxHashes] {
		wd.log.add(tr.E{"ev": "idx", "h": i + 1, "r": clamp(wd.ml.IndexOf(hv)), "hv": strconv.Itoa(hv)})
	}
	wd.cfg()
	if rng.Intn(2) == 0 {
		wd.await()
	}
	wd.finale()
}

// runLife: a short script of phases on a fresh executor.  The actions of one phase run concurrently
// (released together), phases are separated by global quiescence.  C = the callers (each makes one
// or two calls, callee not gated), R = Run, S = Stop, RS = Run and Stop back to back on one
// goroutine.  Families 0-5 are the six sequential orders of C, R, S (use before start, stop before
// start, accept-stop-run ...); 6-13 put them in one phase (start racing stop, first use racing
// start, stop racing submissions, immediate stop after start).  Decorations: Stop twice, Run twice
// (where Run is guarded by a once), the owner waiting for termination from the very beginning
// (WaitStop of MultiLine / RunnerQ), getters, Stop called by the callee of one of the calls.
func runLife(w *tr.W, rng *rand.Rand, kind string, nl, qopt, family int) {
	wd := newWorld(w, fmt.Sprintf("life:%d", family), kind, nl, qopt, true, rng.Intn(3) == 0)
	wd.x = qx.New(0)
	wd.spin = rng.Intn(3)
	pool := hashPool(rng, nl)[:3]
	hv := make([]int, maxCalls+1)
	fail := make([]bool, maxCalls+1)
	pre := make([]bool, maxCalls+1)
	for i := range hv {
		hv[i], fail[i], pre[i] = pool[rng.Intn(len(pool))], rng.Intn(3) == 0, rng.Intn(10) == 0
	}
	var next int32
	var prep sync.Mutex
	var C []func()
	for k := rng.Intn(5); k > 0; k-- { // (no caller at all: an executor that is started and stopped unused)
		n := 1 + rng.Intn(2)
		C = append(C, func() {
			for i := 0; i < n; i++ {
				prep.Lock()
				id := int(atomic.AddInt32(&next, 1))
				if id > maxCalls {
					prep.Unlock()
					return
				}
				c := wd.calls[id]
				ok := wd.prepare(c, hv[id], fail[id], pre[id], false)
				prep.Unlock()
				if !ok {
					tr.Fatal("hash classes exhausted")
				}
				r := wd.callerSubmit(c)
				wd.log.add(tr.E{"ev": "ret", "c": id, "r": r})
			}
		})
	}
	R := []func(){wd.doRun}
	S := []func(){func() { wd.doStop(0) }}
	RS := []func(){func() { wd.doRun(); wd.doStop(0) }}
	cat := func(a ...[]func()) []func() {
		var out []func()
		for _, x := range a {
			out = append(out, x...)
		}
		return out
	}
	var phases [][]func()
	switch family {
	case 0:
		phases = [][]func(){C, R, S}
	case 1:
		phases = [][]func(){C, S, R}
	case 2:
		phases = [][]func(){R, C, S}
	case 3:
		phases = [][]func(){R, S, C}
	case 4:
		phases = [][]func(){S, C, R}
	case 5:
		phases = [][]func(){S, R, C}
	case 6:
		phases = [][]func(){cat(R, S), C}
	case 7:
		phases = [][]func(){cat(C, R, S)}
	case 8:
		phases = [][]func(){cat(C, R), S}
	case 9:
		phases = [][]func(){C, RS}
	case 10:
		phases = [][]func(){cat(C, RS)}
	case 11:
		phases = [][]func(){cat(C, S), R}
	case 12:
		phases = [][]func(){RS, C}
	case famMicro:
		C = nil
		phases = [][]func(){R, S}
	default:
		phases = [][]func(){R, cat(C, S)}
	}
	if rng.Intn(3) == 0 { // Stop twice
		i := rng.Intn(len(phases) + 1)
		if i == len(phases) {
			phases = append(phases, S)
		} else {
			phases[i] = cat(phases[i], S)
		}
	}
	if kind != "mline" && rng.Intn(4) == 0 { // Run twice (MultiLine.Run has no once: not permitted there)
		i := rng.Intn(len(phases))
		phases[i] = cat(phases[i], R)
	}
	if (kind == "mline" || kind == "runq") && rng.Intn(2) == 0 {
		phases = append([][]func(){{wd.await}}, phases...)
	}
	if qopt >= 0 && rng.Intn(2) == 0 {
		i := rng.Intn(len(phases))
		phases[i] = cat(phases[i], []func(){wd.cfg})
	}
	if rng.Intn(4) == 0 { // an actor shutting its own executor down: the callee of this call calls Stop
		wd.stopFrom = 1 + rng.Intn(3)
	}
	for _, ph := range phases {
		release(ph)
		if err := wd.x.Settle(); err != nil {
			tr.Fatal("life: %v", err)
		}
	}
	wd.finale()
}

func main() {
	plans := flag.String("plans", "", "directory of TLC-generated plans")
	out := flag.String("out", "traces.ndjson", "all traces (reset.src tells the mode)")
	seed := flag.Int64("seed", 1, "seed")
	nrand := flag.Int("rand", 100, "random schedules")
	nstress := flag.Int("nstress", 20, "stress runs")
	nlife := flag.Int("nlife", 56, "life-cycle rounds")
	nmicro := flag.Int("nmicro", 120, "life-cycle rounds without callers (one Stop releasing every parked goroutine)")
	nlong := flag.Int("nlong", 1, "executors (of 4 kinds) that get the 65537-call run; all get the 257-call run")
	nwide := flag.Int("nwide", 4, "MultiLines with hundreds of lanes")
	nrace := flag.Int("nrace", 2000, "Stop || Stop rounds with a submission right after each Stop returned")
	flag.Parse()
	rng := rand.New(rand.NewSource(*seed))
	worldSeq = int(*seed % 1000)
	ulog.SetLogLevelStr("error")

	kinds := []string{"line", "mline", "runq", "pchan", "mline", "pchan"}
	kinds4 := []string{"line", "mline", "runq", "pchan"}
	lanesL := []int{1, 2, 3, 7}
	// queue size options: the usual ones and the extremes every constructor accepts (negative = not
	// bounded, top of the integer range, option not given); a proc channel takes only what make(chan)
	// takes
	qopt := func(kind string) int {
		if x := rng.Intn(8); x == 0 {
			ext := []int{-1, math.MaxInt, qDefault}
			if kind == "pchan" {
				return qDefault
			}
			return ext[rng.Intn(len(ext))]
		}
		return []int{0, 1, 2, 8}[rng.Intn(4)]
	}
	lanes := func(kind string) int {
		if kind != "mline" {
			return 1
		}
		if rng.Intn(6) == 0 {
			return 4 + rng.Intn(3)
		}
		return lanesL[rng.Intn(len(lanesL))]
	}
	w := tr.Create(*out)
	// life-cycle rounds first: every family on every kind of executor in turn
	for i := 0; i < *nlife; i++ {
		kind := kinds4[i%4]
		fam := (i / 4) % lifeFamilies
		if i >= 4*lifeFamilies { // second pass: more of Stop before Run with calls accepted, Stop right after Run
			fam = []int{1, 11, 9, 12, 1, 10, 4, 11, 6, 1, 9, 5, 7, 12}[(i/4)%lifeFamilies]
		}
		runLife(w, rng, kind, lanes(kind), qopt(kind), fam)
	}
	for i := 0; i < *nmicro; i++ {
		kind := kinds4[i%4]
		runLife(w, rng, kind, lanes(kind), qopt(kind), famMicro)
	}
	for i, kind := range kinds4 {
		q := []int{1, 2, 8}[rng.Intn(3)]
		runLong(w, rng, kind, lanes(kind), q, 257)
		if (i+int(*seed))%4 < *nlong {
			runLong(w, rng, kind, lanes(kind), q, 65537)
		}
	}
	wides := []int{8, 63, 64, 65, 508, 509, 510, 1023, 1024, 1025}
	for i := 0; i < *nwide; i++ {
		runWide(w, rng, wides[(i+int(*seed))%len(wides)])
	}
	if *plans != "" {
		files, _ := filepath.Glob(filepath.Join(*plans, "*.ndjson"))
		sort.Strings(files)
		for i, f := range files {
			p := readPlan(f)
			if len(p) == 0 || p[0].Op != "init" {
				tr.Fatal("plan %s does not start with init", f)
			}
			// a plan is a schedule of external actions; it is applied to every kind of executor and
			// every lane count in turn (steps that do not apply are skipped)
			kind := kinds4[i%4]
			nl := 1
			if kind == "mline" {
				nl = lanesL[(i/4)%len(lanesL)]
			}
			runPlan(w, "plan:"+filepath.Base(f), kind, nl, p[0].Qsize, true, i%3 == 0, p[1:])
		}
	}
	for i := 0; i < *nrand; i++ {
		kind := kinds[rng.Intn(len(kinds))]
		nl := lanes(kind)
		plan := randPlan(rng, nl, 25+rng.Intn(35))
		// IndexOf is probed for every new hash; in a few schedules that start the consumers first
		// it is not, and the lane of a hash is learned from where its calls run
		withIdx := !(plan[0].Op == "run" && rng.Intn(8) == 0)
		runPlan(w, "rand", kind, nl, qopt(kind), withIdx, rng.Intn(3) == 0, plan)
	}
	for i := 0; i < *nstress; i++ {
		kind := kinds[i%len(kinds)]
		threads := 2 + rng.Intn(3)
		runStress(w, rng, kind, lanes(kind), qopt(kind), threads, maxCalls/threads, rng.Intn(4)%3)
	}
	// last (they leave nothing behind, but nothing else should run beside thousands of short-lived lanes)
	type rc struct {
		kind string
		nl   int
		pct  int
	}
	for _, c := range []rc{{"mline", 4096, 6}, {"mline", 1024, 10}, {"mline", 509, 14}, {"mline", 64, 12}, {"mline", 7, 12},
		{"mline", 2, 10}, {"line", 1, 12}, {"runq", 1, 12}, {"pchan", 1, 12}} {
		if n := *nrace * c.pct / 100; n > 0 {
			runRaces(w, rng, c.kind, c.nl, n)
		}
	}
	w.Close()
	fmt.Printf("events=%d\n", w.N())
}
