// c05: executes TTL-cache plans and seeded histories against cache.NewTTLMemCache and
// cache.NewTTLRdsCache (over an in-memory fake of redis.Cmdable) under a virtual clock and
// records one ndjson event per call for validation by TLC (specs/ttl/TTL_Trace.tla).
//
// The harness decides nothing: it logs what the real code answered.  The only model it keeps is
// the generator-side shadow of the mem/redis comparison region (positive ttls, keep-ttl on live
// keys, clock off every deadline, below the size bound), which the trace spec re-checks.
package main

import (
	"bufio"
	"context"
	"encoding/json"
	"flag"
	"fmt"
	"hash/fnv"
	"math/rand"
	"os"
	"path/filepath"
	"runtime"
	"sort"
	"strconv"
	"strings"
	"sync"
	"sync/atomic"
	"time"

	"github.com/pinealctx/neptune/cache"
	"github.com/redis/go-redis/v9"

	"verif/harness/internal/tr"
)

// ---------------------------------------------------------------- virtual clock (seconds)
var clock int64

func nowSec() int64 { return atomic.LoadInt64(&clock) }

// ---------------------------------------------------------------- actions
type act struct {
	Op   string `json:"op"`
	K    int    `json:"k"`
	V    int    `json:"v"`
	Ht   bool   `json:"ht"`
	TTL  int    `json:"ttl"`
	Nx   bool   `json:"nx"`
	Keep bool   `json:"keep"`
	Rm   bool   `json:"rm"`
	Upd  bool   `json:"upd"`
	D    int    `json:"d"`
	Ks   []int  `json:"ks"`
	// init line of a plan
	Now  int `json:"now"`
	Size int `json:"size"`
	Dttl int `json:"dttl"`
	Nk   int `json:"nk"`
}

type planLine struct {
	A act `json:"a"`
}

func (a act) rec() tr.E {
	switch a.Op {
	case "set":
		return tr.E{"op": "set", "k": a.K, "v": a.V, "ht": a.Ht, "ttl": a.TTL, "nx": a.Nx, "keep": a.Keep}
	case "get":
		return tr.E{"op": "get", "k": a.K, "rm": a.Rm, "upd": a.Upd, "ttl": a.TTL}
	case "rem":
		return tr.E{"op": "rem", "k": a.K}
	case "tick":
		return tr.E{"op": "tick", "d": a.D}
	case "probe":
		ks := make([]int, len(a.Ks))
		copy(ks, a.Ks)
		return tr.E{"op": "probe", "ks": ks}
	}
	return tr.E{"op": a.Op}
}

func rp(c string, v int) tr.E { return tr.E{"c": c, "v": v} }

func encVal(v int) []byte { return []byte("v" + strconv.Itoa(v)) }

func decVal(b []byte) int {
	s := string(b)
	if !strings.HasPrefix(s, "v") {
		return -1
	}
	n, err := strconv.Atoi(s[1:])
	if err != nil || n <= 0 {
		return -1
	}
	return n
}

func errReply(err error) tr.E {
	switch err {
	case cache.ErrTTLKeyNotFound:
		return rp("miss", 0)
	case cache.ErrTTLKeyExists:
		return rp("exists", 0)
	}
	return rp("error: "+err.Error(), 0)
}

// one cache under test
type sut struct {
	c      cache.TTLCache
	prefix string
	ctx    context.Context // nil: context.Background(); racing callers carry their id here
}

func (s *sut) context() context.Context {
	if s.ctx != nil {
		return s.ctx
	}
	return context.Background()
}

func (s *sut) key(k int) string { return s.prefix + strconv.Itoa(k) }

func (s *sut) get(a act) (r tr.E) {
	defer func() {
		if p := recover(); p != nil {
			r = rp(fmt.Sprintf("panic: %v", p), 0)
		}
	}()
	var fns []cache.GetOptFn
	if a.Rm {
		fns = append(fns, cache.WithRemoveAfterGet())
	}
	if a.Upd {
		fns = append(fns, cache.WithUpdateTTL(int64(a.TTL)))
	}
	v, err := s.c.Get(s.context(), s.key(a.K), fns...)
	if err != nil {
		return errReply(err)
	}
	return rp("hit", decVal(v))
}

func (s *sut) do(a act) (r interface{}) {
	defer func() {
		if p := recover(); p != nil {
			r = rp(fmt.Sprintf("panic: %v", p), 0)
		}
	}()
	ctx := s.context()
	switch a.Op {
	case "set":
		var fns []cache.SetOptFn
		if a.Ht {
			fns = append(fns, cache.WithTTL(int64(a.TTL)))
		}
		if a.Nx {
			fns = append(fns, cache.WithMustNotExist())
		}
		if a.Keep {
			fns = append(fns, cache.WithKeepTTL())
		}
		if err := s.c.Set(ctx, s.key(a.K), encVal(a.V), fns...); err != nil {
			return errReply(err)
		}
		return rp("ok", 0)
	case "get":
		return s.get(a)
	case "rem":
		if err := s.c.Remove(ctx, s.key(a.K)); err != nil {
			return errReply(err)
		}
		return rp("ok", 0)
	case "clear":
		s.c.Clear(ctx)
		return rp("ok", 0)
	case "probe":
		rs := make([]tr.E, 0, len(a.Ks))
		for _, k := range a.Ks {
			rs = append(rs, s.get(act{Op: "get", K: k}))
		}
		return rs
	}
	tr.Fatal("unknown op %q", a.Op)
	return nil
}

// ---------------------------------------------------------------- fake redis
// Implements exactly the commands ttlrds.go issues, with redis' semantics over the virtual
// clock in milliseconds, and go-redis' formatting of durations (commands.go: usePrecise,
// formatMs, formatSec).  Any other command hits the nil embedded interface and panics.
type fentry struct {
	val string
	exp int64 // absolute ms; 0 = no expiry
}

type fakeRedis struct {
	redis.Cmdable
	mu   sync.Mutex
	data map[string]fentry
	cmds []string
	sch  *sched // when set, every command of an identified caller waits for the driver's grant
}

// sched serialises the commands of racing callers: each command is atomic, the ORDER in which
// the callers' commands are served is chosen by the driver from the seeded generator.
type callerKey struct{}

const (
	atGate   = 1
	finished = 2
)

type sig struct{ p, kind int }

type sched struct {
	ev    chan sig
	grant []chan struct{}
}

func (f *fakeRedis) gate(ctx context.Context) {
	if f.sch == nil {
		return
	}
	p, ok := ctx.Value(callerKey{}).(int)
	if !ok {
		return
	}
	f.sch.ev <- sig{p, atGate}
	<-f.sch.grant[p]
	f.mu.Lock()
	f.logf("[caller %d]", p+1)
	f.mu.Unlock()
}

func newFake() *fakeRedis { return &fakeRedis{data: map[string]fentry{}} }

func (f *fakeRedis) nowMs() int64 { return nowSec() * 1000 }

func (f *fakeRedis) logf(format string, a ...interface{}) {
	f.cmds = append(f.cmds, fmt.Sprintf(format, a...))
}

func (f *fakeRedis) take() []string {
	f.mu.Lock()
	defer f.mu.Unlock()
	r := f.cmds
	f.cmds = nil
	if r == nil {
		r = make([]string, 0)
	}
	return r
}

// live returns the entry if the key exists and has not reached its expiry.
func (f *fakeRedis) live(key string) (fentry, bool) {
	e, ok := f.data[key]
	if !ok {
		return e, false
	}
	if e.exp != 0 && f.nowMs() >= e.exp {
		delete(f.data, key)
		return e, false
	}
	return e, true
}

func usePrecise(d time.Duration) bool { return d < time.Second || d%time.Second != 0 }
func formatMs(d time.Duration) int64 {
	if d > 0 && d < time.Millisecond {
		return 1
	}
	return int64(d / time.Millisecond)
}
func formatSec(d time.Duration) int64 {
	if d > 0 && d < time.Second {
		return 1
	}
	return int64(d / time.Second)
}

// what `SET key v [PX ms|EX s]` built by go-redis for a positive/other duration means in ms
func pxOf(d time.Duration) (ms int64, arg string) {
	if usePrecise(d) {
		ms = formatMs(d)
		return ms, fmt.Sprintf("px %d", ms)
	}
	s := formatSec(d)
	return s * 1000, fmt.Sprintf("ex %d", s)
}

func str(v interface{}) string {
	switch x := v.(type) {
	case []byte:
		return string(x)
	case string:
		return x
	}
	return fmt.Sprint(v)
}

func (f *fakeRedis) Set(ctx context.Context, key string, value interface{}, d time.Duration) *redis.StatusCmd {
	f.gate(ctx)
	f.mu.Lock()
	defer f.mu.Unlock()
	old, had := f.live(key)
	e := fentry{val: str(value)}
	switch {
	case d > 0:
		ms, arg := pxOf(d)
		f.logf("set %s %s (dur=%dns)", key, arg, int64(d))
		e.exp = f.nowMs() + ms
	case d == redis.KeepTTL:
		f.logf("set %s keepttl", key)
		if had {
			e.exp = old.exp
		}
	default:
		f.logf("set %s (dur=%dns)", key, int64(d))
	}
	f.data[key] = e
	return redis.NewStatusResult("OK", nil)
}

func (f *fakeRedis) SetNX(ctx context.Context, key string, value interface{}, d time.Duration) *redis.BoolCmd {
	f.gate(ctx)
	f.mu.Lock()
	defer f.mu.Unlock()
	e := fentry{val: str(value)}
	switch d {
	case 0:
		f.logf("setnx %s", key)
	case redis.KeepTTL:
		f.logf("set %s keepttl nx", key)
	default:
		ms, arg := pxOf(d)
		f.logf("set %s %s nx (dur=%dns)", key, arg, int64(d))
		if ms <= 0 {
			return redis.NewBoolResult(false, fmt.Errorf("ERR invalid expire time in 'set' command"))
		}
		e.exp = f.nowMs() + ms
	}
	if _, had := f.live(key); had {
		return redis.NewBoolResult(false, nil)
	}
	f.data[key] = e
	return redis.NewBoolResult(true, nil)
}

func (f *fakeRedis) Get(ctx context.Context, key string) *redis.StringCmd {
	f.gate(ctx)
	f.mu.Lock()
	defer f.mu.Unlock()
	f.logf("get %s", key)
	e, ok := f.live(key)
	if !ok {
		return redis.NewStringResult("", redis.Nil)
	}
	return redis.NewStringResult(e.val, nil)
}

func (f *fakeRedis) GetDel(ctx context.Context, key string) *redis.StringCmd {
	f.gate(ctx)
	f.mu.Lock()
	defer f.mu.Unlock()
	f.logf("getdel %s", key)
	e, ok := f.live(key)
	if !ok {
		return redis.NewStringResult("", redis.Nil)
	}
	delete(f.data, key)
	return redis.NewStringResult(e.val, nil)
}

func (f *fakeRedis) Expire(ctx context.Context, key string, d time.Duration) *redis.BoolCmd {
	f.gate(ctx)
	f.mu.Lock()
	defer f.mu.Unlock()
	s := formatSec(d)
	f.logf("expire %s %d (dur=%dns)", key, s, int64(d))
	e, ok := f.live(key)
	if !ok {
		return redis.NewBoolResult(false, nil)
	}
	if s <= 0 {
		delete(f.data, key)
		return redis.NewBoolResult(true, nil)
	}
	e.exp = f.nowMs() + s*1000
	f.data[key] = e
	return redis.NewBoolResult(true, nil)
}

func (f *fakeRedis) Del(ctx context.Context, keys ...string) *redis.IntCmd {
	f.gate(ctx)
	f.mu.Lock()
	defer f.mu.Unlock()
	var n int64
	for _, k := range keys {
		f.logf("del %s", k)
		if _, ok := f.live(k); ok {
			delete(f.data, k)
			n++
		}
	}
	return redis.NewIntResult(n, nil)
}

// Scan pages the key space the way a server does: the cursor walks ALL keys of the database in a
// fixed pseudo-random (hash) order, at most COUNT keys (default 10) are visited per call, MATCH
// filters what was visited - so a page may be short or empty when keys of other prefixes lie in
// between - and cursor 0 ends the iteration.  Keys deleted behind the cursor do not disturb it.
// The command is built like go-redis builds it, so ScanCmd.Iterator() re-issues it through
// scanProcess with the returned cursor.
func (f *fakeRedis) Scan(ctx context.Context, cursor uint64, match string, count int64) *redis.ScanCmd {
	args := []interface{}{"scan", cursor}
	if match != "" {
		args = append(args, "match", match)
	}
	if count > 0 {
		args = append(args, "count", count)
	}
	cmd := redis.NewScanCmd(ctx, f.scanProcess, args...)
	_ = f.scanProcess(ctx, cmd)
	return cmd
}

func keyHash(k string) uint64 {
	h := fnv.New32a()
	h.Write([]byte(k))
	return uint64(h.Sum32())
}

func (f *fakeRedis) scanProcess(ctx context.Context, c redis.Cmder) error {
	f.gate(ctx)
	f.mu.Lock()
	defer f.mu.Unlock()
	cmd, ok := c.(*redis.ScanCmd)
	if !ok {
		return fmt.Errorf("fake redis: scanProcess on %T", c)
	}
	args := cmd.Args()
	var cursor uint64
	switch x := args[1].(type) {
	case uint64:
		cursor = x
	case int64:
		cursor = uint64(x)
	case int:
		cursor = uint64(x)
	}
	match, count := "*", int64(10)
	for i := 2; i+1 < len(args); i += 2 {
		switch fmt.Sprint(args[i]) {
		case "match":
			match = fmt.Sprint(args[i+1])
		case "count":
			if n, ok := args[i+1].(int64); ok && n > 0 {
				count = n
			}
		}
	}
	if !strings.HasSuffix(match, "*") || strings.ContainsAny(strings.TrimSuffix(match, "*"), "*?[\\") {
		err := fmt.Errorf("fake redis: unsupported pattern %q", match)
		cmd.SetErr(err)
		return err
	}
	pre := strings.TrimSuffix(match, "*")
	type hk struct {
		h uint64
		k string
	}
	all := make([]hk, 0, len(f.data))
	for k := range f.data {
		if _, ok := f.live(k); ok {
			if h := keyHash(k); h >= cursor {
				all = append(all, hk{h, k})
			}
		}
	}
	sort.Slice(all, func(a, b int) bool {
		if all[a].h != all[b].h {
			return all[a].h < all[b].h
		}
		return all[a].k < all[b].k
	})
	n := int(count)
	for n < len(all) && n > 0 && all[n].h == all[n-1].h { // equal hashes are visited together
		n++
	}
	var next uint64
	if n < len(all) {
		next = all[n-1].h + 1
	} else {
		n = len(all)
	}
	page := make([]string, 0, n)
	for _, e := range all[:n] {
		if strings.HasPrefix(e.k, pre) {
			page = append(page, e.k)
		}
	}
	f.logf("scan %d match %s count %d -> %d keys, cursor %d", cursor, match, count, len(page), next)
	cmd.SetVal(page, next)
	return nil
}

// ---------------------------------------------------------------- executors
var prefixes = []string{"", "k", "user:", "a/b/", "é-", " "}

func allKeys(nk int) []int {
	ks := make([]int, nk)
	for i := range ks {
		ks[i] = i + 1
	}
	return ks
}

func tick(d int) { atomic.AddInt64(&clock, int64(d)) }

// runMem executes a history on the in-memory cache alone.
func runMem(w *tr.W, src string, size, dttl, nk, now, pfx int, acts []act) {
	atomic.StoreInt64(&clock, int64(now))
	s := &sut{c: cache.NewTTLMemCache(size, int64(dttl)), prefix: prefixes[pfx%len(prefixes)]}
	w.Emit(tr.E{"ev": "reset", "size": size, "dttl": dttl, "nk": nk, "now": now, "threads": 1,
		"impl": "mem", "src": src})
	for _, a := range acts {
		if a.Op == "tick" {
			tick(a.D)
			w.Emit(tr.E{"ev": "call", "a": a.rec(), "r": rp("ok", 0)})
			continue
		}
		w.Emit(tr.E{"ev": "call", "a": a.rec(), "r": s.do(a)})
	}
}

// runBoth executes a history on the in-memory cache and on the redis-backed cache over the
// fake server, in lock step under the same clock.
func runBoth(w *tr.W, src string, size, dttl, nk, now, pfx int, acts []act) {
	atomic.StoreInt64(&clock, int64(now))
	fr := newFake()
	m := &sut{c: cache.NewTTLMemCache(size, int64(dttl)), prefix: "m" + prefixes[pfx%len(prefixes)]}
	r := &sut{c: cache.NewTTLRdsCache(fr, "ttl:"+prefixes[pfx%len(prefixes)], int64(dttl)), prefix: "k"}
	// keys of other prefixes live in the same server, interleave with ours in SCAN order and
	// must survive Clear
	foreign := []string{"other:1", "ttl", "ttlx:k1", "tt:k2", "k1", "session:9f", "z"}
	for n := 0; n < 3*nk/2; n++ {
		foreign = append(foreign, "cfg:"+strconv.Itoa(n))
	}
	for _, k := range foreign {
		fr.data[k] = fentry{val: "x"}
	}
	w.Emit(tr.E{"ev": "reset", "size": size, "dttl": dttl, "nk": nk, "now": now, "threads": 1,
		"impl": "both", "src": src})
	for _, a := range acts {
		if a.Op == "tick" {
			tick(a.D)
			w.Emit(tr.E{"ev": "call2", "a": a.rec(), "r": rp("ok", 0), "rr": rp("ok", 0), "cmds": fr.take()})
			continue
		}
		mr := m.do(a)
		rr := r.do(a)
		w.Emit(tr.E{"ev": "call2", "a": a.rec(), "r": mr, "rr": rr, "cmds": fr.take()})
	}
	gone := 0
	for _, k := range foreign {
		if _, ok := fr.data[k]; !ok {
			gone++
		}
	}
	if gone > 0 {
		// Clear removed a key outside its prefix: make it visible to the spec
		w.Emit(tr.E{"ev": "call2", "a": tr.E{"op": "clear"}, "r": rp("ok", 0),
			"rr": rp("foreign key deleted by Clear", 0), "cmds": fr.take()})
	}
}

func readPlan(path string) []act {
	f, err := os.Open(path)
	if err != nil {
		tr.Fatal("%v", err)
	}
	defer f.Close()
	var out []act
	sc := bufio.NewScanner(f)
	sc.Buffer(make([]byte, 1<<20), 1<<24)
	for sc.Scan() {
		var p planLine
		if err := json.Unmarshal(sc.Bytes(), &p); err != nil {
			tr.Fatal("plan %s: %v", path, err)
		}
		out = append(out, p.A)
	}
	return out
}

func planFiles(dir string) []string {
	if dir == "" {
		return nil
	}
	files, _ := filepath.Glob(filepath.Join(dir, "*.ndjson"))
	sort.Slice(files, func(i, j int) bool {
		if len(files[i]) != len(files[j]) {
			return len(files[i]) < len(files[j])
		}
		return files[i] < files[j]
	})
	return files
}

// ---------------------------------------------------------------- seeded histories
type gen struct {
	rng  *rand.Rand
	nk   int
	dttl int
	now  int
	nv   int
	dls  []int // deadlines handed out so far (for boundary-biased ticks)
}

func (g *gen) ttlChoice() int {
	switch x := g.rng.Intn(10); {
	case x == 0:
		return 0
	case x == 1:
		return -1 - g.rng.Intn(3)
	case x < 6:
		return 1 + g.rng.Intn(3)
	default:
		return 1 + g.rng.Intn(9)
	}
}

func (g *gen) note(ttl int) {
	if ttl > 0 {
		g.dls = append(g.dls, g.now+ttl)
	}
}

// tickTo picks a clock advance: mostly onto, just before or just after a pending deadline
func (g *gen) tickD() int {
	var fut []int
	for _, d := range g.dls {
		if d >= g.now {
			fut = append(fut, d)
		}
	}
	g.dls = fut
	if len(fut) > 0 && g.rng.Intn(4) != 0 {
		d := fut[g.rng.Intn(len(fut))] + g.rng.Intn(3) - 1 - g.now
		if d >= 1 {
			return d
		}
	}
	return 1 + g.rng.Intn(3)
}

func (g *gen) memAct() act {
	k := g.rng.Intn(g.nk) + 1
	switch x := g.rng.Intn(100); {
	case x < 34:
		g.nv++
		a := act{Op: "set", K: k, V: g.nv, Nx: g.rng.Intn(3) == 0, Keep: g.rng.Intn(3) == 0}
		if g.rng.Intn(2) == 0 {
			a.Ht, a.TTL = true, g.ttlChoice()
			g.note(a.TTL)
		} else {
			g.note(g.dttl)
		}
		return a
	case x < 64:
		a := act{Op: "get", K: k, Rm: g.rng.Intn(4) == 0}
		if g.rng.Intn(3) == 0 {
			a.Upd = true
			if g.rng.Intn(3) != 0 {
				a.TTL = g.ttlChoice()
			}
			if a.TTL != 0 {
				g.note(a.TTL)
			} else {
				g.note(g.dttl)
			}
		}
		return a
	case x < 82:
		d := g.tickD()
		g.now += d
		return act{Op: "tick", D: d}
	case x < 90:
		return act{Op: "rem", K: k}
	case x < 93:
		return act{Op: "clear"}
	default:
		ks := allKeys(g.nk)
		g.rng.Shuffle(len(ks), func(i, j int) { ks[i], ks[j] = ks[j], ks[i] })
		return act{Op: "probe", Ks: ks}
	}
}

func randMem(w *tr.W, rng *rand.Rand, i, maxops int) {
	size := []int{0, 0, 1, 1, 2, 2, 3, 4, 6, 9}[rng.Intn(10)]
	nk := 2 + rng.Intn(11)
	if rng.Intn(3) == 0 {
		nk = size + 1 + rng.Intn(2) // just above the bound
	}
	dttl := []int{-3, 0, 0, 1, 2, 3, 5, 8}[rng.Intn(8)]
	now := 1 + rng.Intn(1000000)
	g := &gen{rng: rng, nk: nk, dttl: dttl, now: now}
	n := 5 + rng.Intn(maxops)
	acts := make([]act, 0, n+1)
	for j := 0; j < n; j++ {
		acts = append(acts, g.memAct())
	}
	acts = append(acts, act{Op: "probe", Ks: allKeys(nk)})
	runMem(w, "rand", size, dttl, nk, now, i, acts)
}

// region histories: the generator keeps the (deterministic) liveness of every key so that
// keep-ttl is applied to live keys only and the clock never stops on a live key's deadline.
func randBoth(w *tr.W, rng *rand.Rand, i, maxops int) {
	nk := 2 + rng.Intn(9)
	size := nk + rng.Intn(3)
	dttl := []int{0, -2, 1, 2, 3, 5, 8}[rng.Intn(7)]
	now := 1 + rng.Intn(1000000)
	start := now
	dl := map[int]int{} // live keys -> deadline
	live := func(k int) bool { d, ok := dl[k]; return ok && now < d }
	pos := func() int {
		if rng.Intn(2) == 0 {
			return 1 + rng.Intn(3)
		}
		return 1 + rng.Intn(9)
	}
	nv := 0
	n := 5 + rng.Intn(maxops)
	acts := make([]act, 0, n+1)
	if i%3 == 2 {
		// a key space that needs several SCAN pages: fill, Clear, then ask for every key
		nk = 12 + rng.Intn(29)
		size = nk + rng.Intn(3)
		for _, k := range rng.Perm(nk) {
			if rng.Intn(8) == 0 {
				continue
			}
			nv++
			a := act{Op: "set", K: k + 1, V: nv, Ht: true, TTL: 30 + rng.Intn(30), Nx: rng.Intn(4) == 0}
			dl[a.K] = now + a.TTL
			acts = append(acts, a)
		}
		acts = append(acts, act{Op: "clear"})
		dl = map[int]int{}
		if rng.Intn(2) == 0 {
			acts = append(acts, act{Op: "probe", Ks: allKeys(nk)})
		}
		for _, k := range rng.Perm(nk) {
			if rng.Intn(3) == 0 {
				continue
			}
			nv++
			a := act{Op: "set", K: k + 1, V: nv, Ht: true, TTL: 30 + rng.Intn(30), Nx: true}
			dl[a.K] = now + a.TTL
			acts = append(acts, a)
		}
		acts = append(acts, act{Op: "probe", Ks: allKeys(nk)})
	}
	for j := 0; j < n; j++ {
		k := rng.Intn(nk) + 1
		switch x := rng.Intn(100); {
		case x < 36:
			nv++
			a := act{Op: "set", K: k, V: nv, Nx: rng.Intn(3) == 0}
			eff := dttl
			if dttl <= 0 || rng.Intn(2) == 0 {
				a.Ht, a.TTL = true, pos()
				eff = a.TTL
			}
			if live(k) && rng.Intn(3) == 0 {
				a.Keep = true
			}
			if !(a.Nx && live(k)) {
				if !(a.Keep && live(k)) {
					dl[k] = now + eff
				}
			}
			acts = append(acts, a)
		case x < 66:
			a := act{Op: "get", K: k, Rm: rng.Intn(4) == 0}
			if rng.Intn(3) == 0 {
				a.Upd = true
				if dttl <= 0 || rng.Intn(3) != 0 {
					a.TTL = pos()
				}
			}
			if live(k) {
				if a.Rm {
					delete(dl, k)
				} else if a.Upd {
					if a.TTL != 0 {
						dl[k] = now + a.TTL
					} else {
						dl[k] = now + dttl
					}
				}
			}
			acts = append(acts, a)
		case x < 84:
			// candidates: around a pending deadline, or a small step; never onto a live deadline
			var cands []int
			for _, d := range dl {
				if d > now {
					cands = append(cands, d-1-now, d+1-now)
				}
			}
			cands = append(cands, 1, 2, 3)
			rng.Shuffle(len(cands), func(a, b int) { cands[a], cands[b] = cands[b], cands[a] })
			for _, d := range cands {
				if d < 1 {
					continue
				}
				ok := true
				for kk, e := range dl {
					if live(kk) && e == now+d {
						ok = false
					}
				}
				if ok {
					now += d
					acts = append(acts, act{Op: "tick", D: d})
					break
				}
			}
		case x < 91:
			delete(dl, k)
			acts = append(acts, act{Op: "rem", K: k})
		case x < 94:
			dl = map[int]int{}
			acts = append(acts, act{Op: "clear"})
		default:
			ks := allKeys(nk)
			rng.Shuffle(len(ks), func(a, b int) { ks[a], ks[b] = ks[b], ks[a] })
			acts = append(acts, act{Op: "probe", Ks: ks})
		}
	}
	acts = append(acts, act{Op: "probe", Ks: allKeys(nk)})
	runBoth(w, "randr", size, dttl, nk, start, i, acts)
}

// concurrent rounds on the in-memory cache: goroutines race on one key (mostly
// remove-after-get reads); inv/res are logged under one mutex outside the cache's lock.
func runConc(w *tr.W, rng *rand.Rand, i int) {
	threads := 2 + rng.Intn(3)
	nk := 1 + rng.Intn(2)
	size := nk + rng.Intn(2)
	if rng.Intn(5) == 0 {
		size = 1
	}
	dttl := []int{0, 4}[rng.Intn(2)]
	now := 1 + rng.Intn(1000)
	atomic.StoreInt64(&clock, int64(now))
	s := &sut{c: cache.NewTTLMemCache(size, int64(dttl)), prefix: prefixes[i%len(prefixes)]}
	w.Emit(tr.E{"ev": "reset", "size": size, "dttl": dttl, "nk": nk, "now": now, "threads": threads,
		"impl": "mem", "src": "conc"})
	nv := 0
	rounds := 2 + rng.Intn(3)
	for rd := 0; rd < rounds; rd++ {
		k := rng.Intn(nk) + 1
		nv++
		a := act{Op: "set", K: k, V: nv}
		w.Emit(tr.E{"ev": "call", "a": a.rec(), "r": s.do(a)})
		if rng.Intn(4) == 0 {
			d := 1 + rng.Intn(4)
			tick(d)
			w.Emit(tr.E{"ev": "call", "a": act{Op: "tick", D: d}.rec(), "r": rp("ok", 0)})
		}
		progs := make([][]act, threads)
		for t := range progs {
			for n := 1 + rng.Intn(2); n > 0; n-- {
				var b act
				switch x := rng.Intn(10); {
				case x < 6:
					b = act{Op: "get", K: k, Rm: true}
				case x < 7:
					b = act{Op: "get", K: k}
				case x < 8:
					nv++
					b = act{Op: "set", K: k, V: nv, Nx: true}
				case x < 9:
					nv++
					b = act{Op: "set", K: rng.Intn(nk) + 1, V: nv}
				default:
					b = act{Op: "rem", K: k}
				}
				progs[t] = append(progs[t], b)
			}
		}
		var mu sync.Mutex
		var evs []tr.E
		logf := func(e tr.E) {
			mu.Lock()
			evs = append(evs, e)
			mu.Unlock()
		}
		var wg sync.WaitGroup
		var ready, start int32 // spin barrier: the calls are far shorter than a goroutine wake-up
		for t := 0; t < threads; t++ {
			wg.Add(1)
			go func(t int) {
				defer wg.Done()
				atomic.AddInt32(&ready, 1)
				for atomic.LoadInt32(&start) == 0 {
				}
				for _, b := range progs[t] {
					logf(tr.E{"ev": "inv", "t": t + 1, "a": b.rec()})
					r := s.do(b)
					logf(tr.E{"ev": "res", "t": t + 1, "r": r})
				}
			}(t)
		}
		for atomic.LoadInt32(&ready) < int32(threads) {
			runtime.Gosched()
		}
		atomic.StoreInt32(&start, 1)
		wg.Wait()
		for _, e := range evs {
			w.Emit(e)
		}
	}
	p := act{Op: "probe", Ks: allKeys(nk)}
	w.Emit(tr.E{"ev": "call", "a": p.rec(), "r": s.do(p)})
}

// racing callers on ONE key of the redis-backed cache.  Every command the cache sends to the fake
// server is a scheduling point: the caller parks at the gate and the driver serves the parked
// callers one command at a time in an order drawn from the seeded generator, so exactly one
// caller runs at any time and the recorded inv/res log is totally ordered and reproducible.
// Programs use single-key calls without update-ttl (Get + Expire is not atomic by design) and
// the clock never comes near a deadline; TLC infers the linearization.
func runRdsConc(w *tr.W, rng *rand.Rand, i int) {
	threads := 2 + rng.Intn(3)
	if rng.Intn(2) == 0 {
		threads = 2
	}
	nk := 1 + rng.Intn(2)
	dttl := []int{0, 10}[rng.Intn(2)]
	now := 1 + rng.Intn(1000)
	atomic.StoreInt64(&clock, int64(now))
	fr := newFake()
	c := cache.NewTTLRdsCache(fr, "ttl:"+prefixes[i%len(prefixes)], int64(dttl))
	s := &sut{c: c, prefix: "k"}
	w.Emit(tr.E{"ev": "reset", "size": nk + 2, "dttl": dttl, "nk": nk, "now": now, "threads": threads,
		"impl": "rds", "src": "rconc"})
	nv, ticks := 0, 0
	rounds := 2 + rng.Intn(3)
	for rd := 0; rd < rounds; rd++ {
		k := rng.Intn(nk) + 1
		if rng.Intn(5) != 0 {
			nv++
			a := act{Op: "set", K: k, V: nv}
			w.Emit(tr.E{"ev": "call", "a": a.rec(), "r": s.do(a), "cmds": fr.take()})
		}
		if ticks < 3 && rng.Intn(4) == 0 { // ttl 10, at most 3 s per trace: far from every deadline
			ticks++
			tick(1)
			w.Emit(tr.E{"ev": "call", "a": act{Op: "tick", D: 1}.rec(), "r": rp("ok", 0)})
		}
		progs := make([][]act, threads)
		for t := range progs {
			for n := 1 + rng.Intn(2); n > 0; n-- {
				var b act
				switch x := rng.Intn(10); {
				case x < 5:
					b = act{Op: "get", K: k, Rm: true}
				case x < 6:
					b = act{Op: "get", K: k}
				case x < 7:
					nv++
					b = act{Op: "set", K: k, V: nv, Nx: true}
				case x < 9:
					nv++
					b = act{Op: "set", K: k, V: nv}
				default:
					b = act{Op: "rem", K: k}
				}
				progs[t] = append(progs[t], b)
			}
		}
		sc := &sched{ev: make(chan sig), grant: make([]chan struct{}, threads)}
		for t := range sc.grant {
			sc.grant[t] = make(chan struct{})
		}
		fr.sch = sc
		evs := make([]tr.E, 0, 8*threads) // appended by the one running caller only
		state := make([]int, threads)
		for t := 0; t < threads; t++ {
			go func(t int) {
				me := &sut{c: c, prefix: "k", ctx: context.WithValue(context.Background(), callerKey{}, t)}
				for _, b := range progs[t] {
					evs = append(evs, tr.E{"ev": "inv", "t": t + 1, "a": b.rec()})
					r := me.do(b)
					evs = append(evs, tr.E{"ev": "res", "t": t + 1, "r": r})
				}
				sc.ev <- sig{t, finished}
			}(t)
			sg := <-sc.ev // runs until its first command (or to the end)
			state[sg.p] = sg.kind
		}
		for {
			var parked []int
			for t, st := range state {
				if st == atGate {
					parked = append(parked, t)
				}
			}
			if len(parked) == 0 {
				break
			}
			p := parked[rng.Intn(len(parked))]
			state[p] = 0
			sc.grant[p] <- struct{}{}
			sg := <-sc.ev
			state[sg.p] = sg.kind
		}
		fr.sch = nil
		cmds := fr.take()
		for _, e := range evs {
			w.Emit(e)
		}
		// what the round left behind (a Set that landed in between must still be there)
		p := act{Op: "probe", Ks: allKeys(nk)}
		w.Emit(tr.E{"ev": "call", "a": p.rec(), "r": s.do(p), "cmds": cmds})
		fr.take()
	}
}

func main() {
	plans := flag.String("plans", "", "directory of TLC plans for the in-memory cache")
	plansr := flag.String("plansr", "", "directory of TLC plans inside the comparison region")
	out := flag.String("out", "mem.ndjson", "in-memory traces")
	both := flag.String("both", "both.ndjson", "mem + redis lock-step traces")
	conc := flag.String("conc", "conc.ndjson", "concurrent traces")
	seed := flag.Int64("seed", 1, "seed")
	nhist := flag.Int("hist", 200, "random in-memory histories")
	nboth := flag.Int("nboth", 150, "random region histories")
	nconc := flag.Int("nconc", 60, "concurrent histories")
	nrconc := flag.Int("nrconc", 60, "concurrent histories on the redis-backed cache (scheduled commands)")
	maxops := flag.Int("maxops", 60, "max ops per history")
	flag.Parse()
	rng := rand.New(rand.NewSource(*seed))
	restore := cache.VerifSetNow(nowSec)
	defer restore()

	w := tr.Create(*out)
	for i, f := range planFiles(*plans) {
		p := readPlan(f)
		if len(p) == 0 || p[0].Op != "init" {
			tr.Fatal("plan %s does not start with init", f)
		}
		runMem(w, "plan:"+filepath.Base(f), p[0].Size, p[0].Dttl, p[0].Nk, p[0].Now, i, p[1:])
	}
	for i := 0; i < *nhist; i++ {
		randMem(w, rng, i, *maxops)
	}
	w.Close()

	bw := tr.Create(*both)
	for i, f := range planFiles(*plansr) {
		p := readPlan(f)
		if len(p) == 0 || p[0].Op != "init" {
			tr.Fatal("plan %s does not start with init", f)
		}
		runBoth(bw, "planr:"+filepath.Base(f), p[0].Size, p[0].Dttl, p[0].Nk, p[0].Now, i, p[1:])
	}
	for i := 0; i < *nboth; i++ {
		randBoth(bw, rng, i, *maxops)
	}
	bw.Close()

	cw := tr.Create(*conc)
	for i := 0; i < *nconc; i++ {
		runConc(cw, rng, i)
	}
	for i := 0; i < *nrconc; i++ {
		runRdsConc(cw, rng, i)
	}
	cw.Close()
	fmt.Printf("mem_events=%d both_events=%d conc_events=%d\n", w.N(), bw.N(), cw.N())
}
