// c05: executes TTL-cache plans and seeded histories against cache.NewTTLMemCache and
// cache.NewTTLRdsCache (over an in-memory fake of redis.Cmdable) under a virtual clock and
// records one ndjson event per call for validation by TLC (specs/ttl/TTL_Trace.tla).
//
// The harness decides nothing: it logs what the real code answered.  The only model it keeps is
// the generator-side shadow of the mem/redis comparison region (positive ttls, keep-ttl on live
// keys, clock off every deadline, below the size bound), which the trace spec re-checks.
package main

import (
	"bufio"
	"bytes"
	"context"
	"encoding/json"
	"errors"
	"flag"
	"fmt"
	"hash/fnv"
	"io"
	"math"
	"math/rand"
	"net"
	"os"
	"path/filepath"
	"runtime"
	"sort"
	"strconv"
	"strings"
	"sync"
	"sync/atomic"
	"time"

	"github.com/pinealctx/neptune/cache"
	"github.com/redis/go-redis/v9"
	"google.golang.org/grpc/codes"
	"google.golang.org/grpc/status"

	"verif/harness/internal/tr"
)

// ---------------------------------------------------------------- virtual clock (seconds)
var clock int64

func nowSec() int64 { return atomic.LoadInt64(&clock) }

// ---------------------------------------------------------------- actions
type act struct {
	Op   string `json:"op"`
	K    int    `json:"k"`
	V    int    `json:"v"`
	Ht   bool   `json:"ht"`
	TTL  int    `json:"ttl"`
	Nx   bool   `json:"nx"`
	Keep bool   `json:"keep"`
	Rm   bool   `json:"rm"`
	Upd  bool   `json:"upd"`
	D    int    `json:"d"`
	Ks   []int  `json:"ks"`
	N    int    `json:"-"` // > 1: the call is repeated N times back to back (one run-length-encoded event)
	Inj  string `json:"-"` // "fault": the store fails the call's first command; "ctx": the caller's context has ended
	// init line of a plan
	Now  int `json:"now"`
	Size int `json:"size"`
	Dttl int `json:"dttl"`
	Nk   int `json:"nk"`
}

type planLine struct {
	A act `json:"a"`
}

func (a act) rec() tr.E {
	switch a.Op {
	case "set":
		return tr.E{"op": "set", "k": a.K, "v": a.V, "ht": a.Ht, "ttl": clampI(a.TTL), "nx": a.Nx, "keep": a.Keep}
	case "get":
		return tr.E{"op": "get", "k": a.K, "rm": a.Rm, "upd": a.Upd, "ttl": clampI(a.TTL)}
	case "rem":
		return tr.E{"op": "rem", "k": a.K}
	case "tick":
		return tr.E{"op": "tick", "d": a.D}
	case "probe":
		ks := make([]int, len(a.Ks))
		copy(ks, a.Ks)
		return tr.E{"op": "probe", "ks": ks}
	}
	return tr.E{"op": a.Op}
}

func rp(c string, v int) tr.E { return tr.E{"c": c, "v": v} }

// clampI carries a number TLC cannot hold: beyond +-10^9 only "very large" matters (clocks stay
// below 2*10^6 and key counts below 100, so the contract behaves identically).
func clampI(x int) int {
	if x > 1000000000 {
		return 1000000000
	}
	if x < -1000000000 {
		return -1000000000
	}
	return x
}

// values: 0 is the empty value (nil or zero-length); 1000001..1000255 are the one-byte values;
// every 9th value is padded to a length around a power of two (or large)
var padTo = []int{63, 64, 65, 4095, 4096, 4097, 8192, 65535, 65536, 65537, 70000}

func encVal(v int) []byte {
	if v == 0 {
		return nil
	}
	if v < 0 {
		return []byte{}
	}
	if v > 1000000 && v <= 1000255 {
		return []byte{byte(v - 1000000)}
	}
	b := []byte("v" + strconv.Itoa(v) + "|")
	if v%9 == 0 {
		if n := padTo[(v/9)%len(padTo)]; n > len(b) {
			b = append(b, bytes.Repeat([]byte{'x'}, n-len(b))...)
		}
	}
	return b
}

func decVal(b []byte) int {
	if len(b) == 0 {
		return 0
	}
	if len(b) == 1 {
		return 1000000 + int(b[0])
	}
	s := string(b)
	bar := strings.IndexByte(s, '|')
	if !strings.HasPrefix(s, "v") || bar < 0 || strings.Trim(s[bar+1:], "x") != "" {
		return -1
	}
	n, err := strconv.Atoi(s[1:bar])
	if err != nil || n <= 0 || n > 1000000 {
		return -1
	}
	want := bar + 1
	if n%9 == 0 && padTo[(n/9)%len(padTo)] > want {
		want = padTo[(n/9)%len(padTo)]
	}
	if len(s) != want {
		return -1
	}
	return n
}

// scribble: what a caller may do with a slice that is its own
// scribbleAgain: slices the caller owns are written to again while the object stays in use
func (s *sut) scribbleAgain() {
	if s.own == 0 || s.lazy || s.norec {
		return
	}
	for _, b := range s.owned {
		scribble(b)
	}
}

func (s *sut) owns(b []byte) {
	if len(b) == 0 {
		return
	}
	if len(s.owned) >= 24 {
		s.owned = s.owned[1:]
	}
	s.owned = append(s.owned, b)
}

func scribble(b []byte) {
	for i := range b {
		b[i] = '#'
	}
	_ = append(b[:0], "gone"...)
}

// error classes the package distinguishes (sentinels are grpc status errors): not-found,
// already-exists, anything else is a fault of the backing store or of the caller's context.
func errReply(err error) tr.E {
	switch {
	case errors.Is(err, cache.ErrTTLKeyNotFound) || status.Code(err) == codes.NotFound:
		return rp("miss", 0)
	case errors.Is(err, cache.ErrTTLKeyExists) || status.Code(err) == codes.AlreadyExists:
		return rp("exists", 0)
	}
	return rp("fault", 0)
}

// key naming schemes: the property ranges over any keys
var prefixes = []string{"", "k", "user:", "a/b/", "é-", " "}
var exotic = []string{"*", "k*?", "a\x00b", "line\nbreak", strings.Repeat("L", 3000), "[x]", "\\", "ключ", "%d%s"}

func keyScheme(i int) func(int) string {
	n := i % (len(prefixes) + 2)
	if n < len(prefixes) {
		return func(k int) string { return prefixes[n] + strconv.Itoa(k) }
	}
	return func(k int) string {
		if k == 1 {
			return "" // the empty key
		}
		return exotic[k%len(exotic)] + strconv.Itoa(k)
	}
}

// A call that never comes back costs one watchdog period; after the first one the period shrinks
// and after a few the remaining histories are not run (what was recorded is evidence enough).
var stuckSeen int32

func watchdogPeriod() time.Duration {
	if atomic.LoadInt32(&stuckSeen) > 0 {
		return time.Second
	}
	return 10 * time.Second
}

func noteStuck()   { atomic.AddInt32(&stuckSeen, 1) }
func giveUp() bool { return atomic.LoadInt32(&stuckSeen) >= 4 }

type held struct {
	m tr.E
	b []byte
}

type input struct{ buf, cp []byte }

// one cache under test
type sut struct {
	c    cache.TTLCache
	key  func(int) string
	ctx  context.Context // nil: context.Background(); racing callers carry their id here
	lazy bool            // returned slices are kept AS RETURNED and rendered when the history is over
	held []held
	ins  []input // every value slice handed to Set, with a private copy
	scr  []byte  // when non-nil: one value buffer reused across Sets (a store that copies on the wire)
	ttlo map[int]cache.SetOptFn
	nx   cache.SetOptFn
	keep cache.SetOptFn
	dead bool // a call never came back: the instance is abandoned
	mu   sync.Mutex
	// the caller owns what it was given: a rendered result is scribbled over as soon as the store
	// cannot still be holding it - at once when every read returns a fresh slice (own = 2), for the
	// in-memory cache (which hands out the stored slice itself) after a one-shot read and, for the
	// rest and for the inputs of Set, once Clear has returned (own = 1).  Sequential runs only.
	own   int
	lent  [][]byte
	owned [][]byte
	bad   bool
	norec bool // long runs: inputs are looked at once, not kept
}

// nestedKeys: caller keys that look like the cache's own storage keys - the name of one key is the
// cache's prefix (once, twice) followed by the name of another.  They are different keys.
func nestedKeys(pfx string) func(int) string {
	if pfx == "" {
		pfx = "ttl:"
	}
	return func(k int) string { return strings.Repeat(pfx, (k+2)%3) + strconv.Itoa((k - 1) / 3) }
}

// newSutP: a redis-backed cache with prefix pfx; every fourth gets nested key names
func newSutP(c cache.TTLCache, scheme int, lazy bool, pfx string, sel int) *sut {
	s := newSut(c, scheme, lazy)
	if sel%4 == 2 {
		s.key = nestedKeys(pfx)
	}
	return s
}

func newSut(c cache.TTLCache, scheme int, lazy bool) *sut {
	return &sut{c: c, key: keyScheme(scheme), lazy: lazy, ttlo: map[int]cache.SetOptFn{},
		nx: cache.WithMustNotExist(), keep: cache.WithKeepTTL()}
}

func (s *sut) context() context.Context {
	if s.ctx != nil {
		return s.ctx
	}
	return context.Background()
}

// hit renders a returned value now, or remembers the very slice for render()
func (s *sut) hit(v []byte, oneShot bool) tr.E {
	if !s.lazy {
		r := rp("hit", decVal(v))
		switch {
		case s.own == 2 || s.own == 1 && oneShot:
			s.release(v)
			scribble(v)
			s.owns(v)
		case s.own == 1:
			s.lent = append(s.lent, v)
		}
		return r
	}
	m := rp("hit", -2)
	s.mu.Lock()
	s.held = append(s.held, held{m, v})
	s.mu.Unlock()
	return m
}

// release forgets the Set input that v aliases (the in-memory cache hands the stored slice back),
// after a last look at it, so that scribbling over v is not mistaken for the cache writing to it
func (s *sut) release(v []byte) {
	if len(v) == 0 {
		return
	}
	s.mu.Lock()
	defer s.mu.Unlock()
	for i, in := range s.ins {
		if len(in.buf) > 0 && &in.buf[0] == &v[0] {
			if !bytes.Equal(in.buf, in.cp) {
				s.bad = true
			}
			s.ins = append(s.ins[:i], s.ins[i+1:]...)
			return
		}
	}
}

// render fills in the retained results and reports whether every input slice is unchanged
func (s *sut) render() (inmut bool) {
	s.mu.Lock()
	defer s.mu.Unlock()
	for _, h := range s.held {
		h.m["v"] = decVal(h.b)
	}
	s.held = nil
	for _, in := range s.ins {
		if !bytes.Equal(in.buf, in.cp) {
			return false
		}
	}
	return !s.bad
}

func (s *sut) get(ctx context.Context, a act) (r tr.E) {
	defer func() {
		if p := recover(); p != nil {
			r = onPanic(p)
		}
	}()
	var fns []cache.GetOptFn
	if a.Rm {
		fns = append(fns, cache.WithRemoveAfterGet())
	}
	if a.Upd {
		fns = append(fns, cache.WithUpdateTTL(int64(a.TTL)))
		if a.K%3 == 0 {
			fns = append(fns, cache.WithUpdateTTL(int64(a.TTL))) // an option given twice is the same option
		}
	}
	v, err := s.c.Get(ctx, s.key(a.K), fns...)
	if err != nil {
		return errReply(err)
	}
	return s.hit(v, a.Rm)
}

// do performs one call; the second result is the `inmut` observation of a Set (the slice the
// harness passed is unchanged afterwards), true otherwise.
func (s *sut) do(a act) (r interface{}, inmut bool) {
	inmut = true
	defer func() {
		if p := recover(); p != nil {
			r = onPanic(p)
		}
	}()
	s.scribbleAgain()
	ctx := s.context()
	if a.Inj == "ctx" {
		if a.K%2 == 0 {
			c2, cancel := context.WithCancel(ctx)
			cancel()
			ctx = c2
		} else {
			c2, cancel := context.WithDeadline(ctx, time.Now().Add(-time.Hour))
			defer cancel()
			ctx = c2
		}
	}
	switch a.Op {
	case "set":
		var fns []cache.SetOptFn
		if a.Ht {
			// option values are built once and reused across calls, like a caller would
			s.mu.Lock()
			o, ok := s.ttlo[a.TTL]
			if !ok {
				o = cache.WithTTL(int64(a.TTL))
				s.ttlo[a.TTL] = o
			}
			s.mu.Unlock()
			fns = append(fns, o)
		}
		if a.Nx {
			fns = append(fns, s.nx)
			if a.V%2 == 0 {
				fns = append(fns, s.nx)
			}
		}
		if a.Keep {
			fns = append(fns, s.keep)
		}
		val := encVal(a.V)
		if a.V == 0 && a.K%2 == 0 {
			val = encVal(-1) // zero-length instead of nil
		}
		if s.scr != nil {
			s.scr = append(s.scr[:0], val...)
			val = s.scr
		}
		cp := append([]byte{}, val...)
		err := s.c.Set(ctx, s.key(a.K), val, fns...)
		inmut = bytes.Equal(val, cp)
		switch {
		case s.scr != nil || s.norec:
		case s.own == 2 && !s.lazy:
			scribble(val) // the store has copied it
			s.owns(val)
		default:
			s.mu.Lock()
			s.ins = append(s.ins, input{val, cp})
			s.mu.Unlock()
		}
		if err != nil {
			return errReply(err), inmut
		}
		return rp("ok", 0), inmut
	case "get":
		return s.get(ctx, a), true
	case "rem":
		if err := s.c.Remove(ctx, s.key(a.K)); err != nil {
			return errReply(err), true
		}
		return rp("ok", 0), true
	case "clear":
		s.c.Clear(ctx)
		if s.own == 1 && !s.lazy && a.Inj == "" {
			// nothing handed in or out before this point can still be referenced by the cache
			for _, in := range s.ins {
				if !bytes.Equal(in.buf, in.cp) {
					inmut = false
				}
				scribble(in.buf)
				s.owns(in.buf)
			}
			s.ins = nil
			for _, b := range s.lent {
				scribble(b)
				s.owns(b)
			}
			s.lent = nil
		}
		return rp("ok", 0), inmut
	case "probe":
		rs := make([]tr.E, 0, len(a.Ks))
		for _, k := range a.Ks {
			rs = append(rs, s.get(ctx, act{Op: "get", K: k}))
		}
		return rs, true
	}
	tr.Fatal("unknown op %q", a.Op)
	return nil, true
}

// run repeats one call n times back to back and returns the run-length-encoded replies.  Results
// are rendered at once and nothing is retained: a run is about counters, not about aliasing.
func (s *sut) run(a act, n int) (segs []tr.E, inmut bool, stuck bool) {
	lazy, own := s.lazy, s.own
	s.lazy, s.own, s.norec = false, 0, true
	defer func() { s.lazy, s.own, s.norec = lazy, own, false }()
	type res struct {
		segs []tr.E
		im   bool
	}
	ch := make(chan res, 1)
	go func() {
		var out []tr.E
		im, last := true, ""
		for i := 0; i < n; i++ {
			r, m := s.do(a)
			im = im && m
			bs, _ := json.Marshal(r)
			if len(out) > 0 && string(bs) == last {
				out[len(out)-1]["n"] = out[len(out)-1]["n"].(int) + 1
				continue
			}
			last = string(bs)
			out = append(out, tr.E{"r": r, "n": 1})
		}
		ch <- res{out, im}
	}()
	t := time.NewTimer(watchdogPeriod() + time.Duration(n)*100*time.Microsecond)
	defer t.Stop()
	select {
	case x := <-ch:
		return x.segs, x.im, false
	case <-t.C:
		s.dead = true
		noteStuck()
		return []tr.E{{"r": rp("stuck", 0), "n": n}}, true, true
	}
}

// call is do under a watchdog: a call that never comes back is an observation ("stuck"), the
// instance is abandoned and the history ends there.
func (s *sut) call(a act) (interface{}, bool) {
	type res struct {
		r  interface{}
		im bool
	}
	ch := make(chan res, 1)
	go func() {
		r, im := s.do(a)
		ch <- res{r, im}
	}()
	t := time.NewTimer(watchdogPeriod())
	defer t.Stop()
	select {
	case x := <-ch:
		return x.r, x.im
	case <-t.C:
		s.dead = true
		noteStuck()
		if a.Op == "probe" {
			rs := make([]tr.E, 0, len(a.Ks))
			for range a.Ks {
				rs = append(rs, rp("stuck", 0))
			}
			return rs, true
		}
		return rp("stuck", 0), true
	}
}

// ---------------------------------------------------------------- fake redis
// Implements exactly the commands ttlrds.go issues, with redis' semantics over the virtual
// clock in milliseconds, and go-redis' formatting of durations (commands.go: usePrecise,
// formatMs, formatSec).  Any other command is answered with "ERR unknown command" (newFake).
type fentry struct {
	val string
	exp int64 // absolute ms; 0 = no expiry
}

type fakeRedis struct {
	redis.Cmdable
	mu           sync.Mutex
	data         map[string]fentry
	cmds         []string
	sch          *sched // when set, every command of an identified caller waits for the driver's grant
	fail         bool   // the next command is answered with an error and not executed
	nfail, nmiss int
	quiet        bool // long runs: commands are not logged
}

var errInjected = errors.New("fake redis: injected server error (LOADING)")

type netTimeout struct{}

func (netTimeout) Error() string   { return "read tcp 10.0.0.1:6379: i/o timeout" }
func (netTimeout) Timeout() bool   { return true }
func (netTimeout) Temporary() bool { return true }

// every error either side knows can come back from the store: plain and wrapped
var faultKinds = []error{
	errInjected,
	errors.New("READONLY You can't write against a read only replica."),
	errors.New("MOVED 3999 127.0.0.1:6381"),
	redis.ErrClosed,
	redis.TxFailedErr,
	io.EOF,
	io.ErrUnexpectedEOF,
	context.DeadlineExceeded,
	context.Canceled,
	netTimeout{},
	&net.OpError{Op: "dial", Net: "tcp", Err: errors.New("connection refused")},
	fmt.Errorf("pool: %w", redis.ErrClosed),
	fmt.Errorf("retry 3: %w", io.EOF),
}

// missing answers "no such key" the way the client does - sometimes through a wrapper
func (f *fakeRedis) missing() error {
	f.nmiss++
	if f.nmiss%3 == 0 {
		return fmt.Errorf("traced: %w", redis.Nil)
	}
	return redis.Nil
}

// refuse is asked first by every command (under mu): a client does not send a command whose
// context has ended, and an injected server error leaves the command unexecuted.
func (f *fakeRedis) refuse(ctx context.Context, what string) error {
	if err := ctx.Err(); err != nil {
		f.fail = false
		f.logf("%s -> not sent: %v", what, err)
		return err
	}
	if f.fail {
		f.fail = false
		f.nfail++
		err := faultKinds[f.nfail%len(faultKinds)]
		f.logf("%s -> injected error: %v", what, err)
		return err
	}
	return nil
}

func short(k string) string {
	if len(k) > 48 {
		return fmt.Sprintf("%q...(%d bytes)", k[:24], len(k))
	}
	return strconv.Quote(k)
}

// sched serialises the commands of racing callers: each command is atomic, the ORDER in which
// the callers' commands are served is chosen by the driver from the seeded generator.
type callerKey struct{}

const (
	atGate   = 1
	finished = 2
)

type sig struct{ p, kind int }

type sched struct {
	ev    chan sig
	grant []chan struct{}
}

func (f *fakeRedis) gate(ctx context.Context) {
	if f.sch == nil {
		return
	}
	p, ok := ctx.Value(callerKey{}).(int)
	if !ok {
		return
	}
	f.sch.ev <- sig{p, atGate}
	<-f.sch.grant[p]
	f.mu.Lock()
	f.logf("[caller %d]", p+1)
	f.mu.Unlock()
}

// newFake: the commands written below have the server's semantics.  Every OTHER command of
// redis.Cmdable reaches the embedded client, whose hook answers it the way a server that does not
// know the command does (an error reply, nothing executed, no connection is ever dialled); the
// cache turns that into whatever it turns a server error into, and the spec judges the reply.
func newFake() *fakeRedis {
	f := &fakeRedis{data: map[string]fentry{}}
	cl := redis.NewClient(&redis.Options{Addr: "fake:0", Dialer: func(context.Context, string, string) (net.Conn, error) {
		return nil, errors.New("fake redis: no network")
	}})
	cl.AddHook(unknownHook{f})
	f.Cmdable = cl
	return f
}

type unknownHook struct{ f *fakeRedis }

func (h unknownHook) DialHook(next redis.DialHook) redis.DialHook { return next }

func (h unknownHook) ProcessHook(redis.ProcessHook) redis.ProcessHook {
	return func(ctx context.Context, cmd redis.Cmder) error {
		h.f.gate(ctx)
		h.f.mu.Lock()
		defer h.f.mu.Unlock()
		err := h.f.refuse(ctx, cmd.Name())
		if err == nil {
			err = fmt.Errorf("ERR unknown command '%s'", cmd.Name())
			h.f.logf("%s -> %v", cmd.Name(), err)
		}
		cmd.SetErr(err)
		return err
	}
}

func (h unknownHook) ProcessPipelineHook(redis.ProcessPipelineHook) redis.ProcessPipelineHook {
	return func(ctx context.Context, cmds []redis.Cmder) error {
		h.f.gate(ctx)
		h.f.mu.Lock()
		defer h.f.mu.Unlock()
		err := h.f.refuse(ctx, "pipeline")
		if err == nil {
			err = errors.New("ERR unknown command 'multi/pipeline'")
			h.f.logf("pipeline of %d -> %v", len(cmds), err)
		}
		for _, c := range cmds {
			c.SetErr(err)
		}
		return err
	}
}

func (f *fakeRedis) nowMs() int64 { return nowSec() * 1000 }

func (f *fakeRedis) logf(format string, a ...interface{}) {
	if f.quiet {
		return
	}
	f.cmds = append(f.cmds, fmt.Sprintf(format, a...))
}

func (f *fakeRedis) take() []string {
	f.mu.Lock()
	defer f.mu.Unlock()
	r := f.cmds
	f.cmds = nil
	if r == nil {
		r = make([]string, 0)
	}
	return r
}

// live returns the entry if the key exists and has not reached its expiry.
func (f *fakeRedis) live(key string) (fentry, bool) {
	e, ok := f.data[key]
	if !ok {
		return e, false
	}
	if e.exp != 0 && f.nowMs() >= e.exp {
		delete(f.data, key)
		return e, false
	}
	return e, true
}

func usePrecise(d time.Duration) bool { return d < time.Second || d%time.Second != 0 }
func formatMs(d time.Duration) int64 {
	if d > 0 && d < time.Millisecond {
		return 1
	}
	return int64(d / time.Millisecond)
}
func formatSec(d time.Duration) int64 {
	if d > 0 && d < time.Second {
		return 1
	}
	return int64(d / time.Second)
}

// what `SET key v [PX ms|EX s]` built by go-redis for a positive/other duration means in ms
func pxOf(d time.Duration) (ms int64, arg string) {
	if usePrecise(d) {
		ms = formatMs(d)
		return ms, fmt.Sprintf("px %d", ms)
	}
	s := formatSec(d)
	return s * 1000, fmt.Sprintf("ex %d", s)
}

func str(v interface{}) string {
	switch x := v.(type) {
	case []byte:
		return string(x)
	case string:
		return x
	}
	return fmt.Sprint(v)
}

func (f *fakeRedis) Set(ctx context.Context, key string, value interface{}, d time.Duration) *redis.StatusCmd {
	f.gate(ctx)
	f.mu.Lock()
	defer f.mu.Unlock()
	if err := f.refuse(ctx, "set"); err != nil {
		return redis.NewStatusResult("", err)
	}
	old, had := f.live(key)
	e := fentry{val: str(value)}
	switch {
	case d > 0:
		ms, arg := pxOf(d)
		f.logf("set %s %s (dur=%dns)", short(key), arg, int64(d))
		e.exp = f.nowMs() + ms
	case d == redis.KeepTTL:
		f.logf("set %s keepttl", short(key))
		if had {
			e.exp = old.exp
		}
	default:
		f.logf("set %s (dur=%dns)", short(key), int64(d))
	}
	f.data[key] = e
	return redis.NewStatusResult("OK", nil)
}

func (f *fakeRedis) SetNX(ctx context.Context, key string, value interface{}, d time.Duration) *redis.BoolCmd {
	f.gate(ctx)
	f.mu.Lock()
	defer f.mu.Unlock()
	if err := f.refuse(ctx, "setnx"); err != nil {
		return redis.NewBoolResult(false, err)
	}
	e := fentry{val: str(value)}
	switch d {
	case 0:
		f.logf("setnx %s", short(key))
	case redis.KeepTTL:
		f.logf("set %s keepttl nx", short(key))
	default:
		ms, arg := pxOf(d)
		f.logf("set %s %s nx (dur=%dns)", short(key), arg, int64(d))
		if ms <= 0 {
			return redis.NewBoolResult(false, fmt.Errorf("ERR invalid expire time in 'set' command"))
		}
		e.exp = f.nowMs() + ms
	}
	if _, had := f.live(key); had {
		return redis.NewBoolResult(false, nil)
	}
	f.data[key] = e
	return redis.NewBoolResult(true, nil)
}

func (f *fakeRedis) Get(ctx context.Context, key string) *redis.StringCmd {
	f.gate(ctx)
	f.mu.Lock()
	defer f.mu.Unlock()
	if err := f.refuse(ctx, "get"); err != nil {
		return redis.NewStringResult("", err)
	}
	f.logf("get %s", short(key))
	e, ok := f.live(key)
	if !ok {
		return redis.NewStringResult("", f.missing())
	}
	return redis.NewStringResult(strings.Clone(e.val), nil)
}

func (f *fakeRedis) GetDel(ctx context.Context, key string) *redis.StringCmd {
	f.gate(ctx)
	f.mu.Lock()
	defer f.mu.Unlock()
	if err := f.refuse(ctx, "getdel"); err != nil {
		return redis.NewStringResult("", err)
	}
	f.logf("getdel %s", short(key))
	e, ok := f.live(key)
	if !ok {
		return redis.NewStringResult("", f.missing())
	}
	delete(f.data, key)
	return redis.NewStringResult(strings.Clone(e.val), nil)
}

func (f *fakeRedis) Del(ctx context.Context, keys ...string) *redis.IntCmd {
	f.gate(ctx)
	f.mu.Lock()
	defer f.mu.Unlock()
	if err := f.refuse(ctx, "del"); err != nil {
		return redis.NewIntResult(0, err)
	}
	var n int64
	for _, k := range keys {
		f.logf("del %s", short(k))
		if _, ok := f.live(k); ok {
			delete(f.data, k)
			n++
		}
	}
	return redis.NewIntResult(n, nil)
}

// ---- the EXPIRE family.  at = absolute expiry in ms (<= now deletes the key); flag "" | NX | XX |
// GT | LT with the server's rules (a key without expiry counts as infinite for GT / LT).
func (f *fakeRedis) expire(ctx context.Context, what, key string, at int64, flag string) *redis.BoolCmd {
	f.gate(ctx)
	f.mu.Lock()
	defer f.mu.Unlock()
	if err := f.refuse(ctx, what); err != nil {
		return redis.NewBoolResult(false, err)
	}
	f.logf("%s %s at=%+dms %s", what, short(key), at-f.nowMs(), flag)
	e, ok := f.live(key)
	if !ok {
		return redis.NewBoolResult(false, nil)
	}
	switch flag {
	case "NX":
		ok = e.exp == 0
	case "XX":
		ok = e.exp != 0
	case "GT":
		ok = e.exp != 0 && at > e.exp
	case "LT":
		ok = e.exp == 0 || at < e.exp
	}
	if !ok {
		return redis.NewBoolResult(false, nil)
	}
	if at <= f.nowMs() {
		delete(f.data, key)
		return redis.NewBoolResult(true, nil)
	}
	e.exp = at
	f.data[key] = e
	return redis.NewBoolResult(true, nil)
}

func (f *fakeRedis) inSec(d time.Duration) int64 { return f.nowMs() + formatSec(d)*1000 }

func (f *fakeRedis) Expire(ctx context.Context, key string, d time.Duration) *redis.BoolCmd {
	return f.expire(ctx, fmt.Sprintf("expire(dur=%dns)", int64(d)), key, f.inSec(d), "")
}
func (f *fakeRedis) ExpireNX(ctx context.Context, key string, d time.Duration) *redis.BoolCmd {
	return f.expire(ctx, fmt.Sprintf("expire(dur=%dns)", int64(d)), key, f.inSec(d), "NX")
}
func (f *fakeRedis) ExpireXX(ctx context.Context, key string, d time.Duration) *redis.BoolCmd {
	return f.expire(ctx, fmt.Sprintf("expire(dur=%dns)", int64(d)), key, f.inSec(d), "XX")
}
func (f *fakeRedis) ExpireGT(ctx context.Context, key string, d time.Duration) *redis.BoolCmd {
	return f.expire(ctx, fmt.Sprintf("expire(dur=%dns)", int64(d)), key, f.inSec(d), "GT")
}
func (f *fakeRedis) ExpireLT(ctx context.Context, key string, d time.Duration) *redis.BoolCmd {
	return f.expire(ctx, fmt.Sprintf("expire(dur=%dns)", int64(d)), key, f.inSec(d), "LT")
}
func (f *fakeRedis) PExpire(ctx context.Context, key string, d time.Duration) *redis.BoolCmd {
	return f.expire(ctx, fmt.Sprintf("pexpire(dur=%dns)", int64(d)), key, f.nowMs()+formatMs(d), "")
}

// absolute times are read against the virtual clock (unix seconds)
func (f *fakeRedis) ExpireAt(ctx context.Context, key string, tm time.Time) *redis.BoolCmd {
	return f.expire(ctx, "expireat", key, tm.Unix()*1000, "")
}
func (f *fakeRedis) PExpireAt(ctx context.Context, key string, tm time.Time) *redis.BoolCmd {
	return f.expire(ctx, "pexpireat", key, tm.UnixNano()/int64(time.Millisecond), "")
}

func (f *fakeRedis) expireTime(ctx context.Context, what, key string, unit time.Duration) *redis.DurationCmd {
	f.gate(ctx)
	f.mu.Lock()
	defer f.mu.Unlock()
	if err := f.refuse(ctx, what); err != nil {
		return redis.NewDurationResult(0, err)
	}
	f.logf("%s %s", what, short(key))
	e, ok := f.live(key)
	switch {
	case !ok:
		return redis.NewDurationResult(-2, nil)
	case e.exp == 0:
		return redis.NewDurationResult(-1, nil)
	}
	return redis.NewDurationResult(time.Duration(e.exp/(int64(unit)/int64(time.Millisecond)))*unit, nil)
}
func (f *fakeRedis) ExpireTime(ctx context.Context, key string) *redis.DurationCmd {
	return f.expireTime(ctx, "expiretime", key, time.Second)
}
func (f *fakeRedis) PExpireTime(ctx context.Context, key string) *redis.DurationCmd {
	return f.expireTime(ctx, "pexpiretime", key, time.Millisecond)
}

// SET with every option go-redis' SetArgs can express: NX|XX, GET, KEEPTTL, EX|PX, EXAT
func (f *fakeRedis) SetArgs(ctx context.Context, key string, value interface{}, a redis.SetArgs) *redis.StatusCmd {
	f.gate(ctx)
	f.mu.Lock()
	defer f.mu.Unlock()
	if err := f.refuse(ctx, "set(args)"); err != nil {
		return redis.NewStatusResult("", err)
	}
	old, had := f.live(key)
	f.logf("set %s keepttl=%v ttl=%dns exat=%v mode=%q get=%v", short(key), a.KeepTTL, int64(a.TTL), !a.ExpireAt.IsZero(), a.Mode, a.Get)
	mode := strings.ToUpper(a.Mode)
	blocked := mode == "NX" && had || mode == "XX" && !had
	if !blocked {
		e := fentry{val: str(value)}
		if a.KeepTTL && had {
			e.exp = old.exp
		}
		if !a.ExpireAt.IsZero() {
			e.exp = a.ExpireAt.Unix() * 1000
		}
		if a.TTL > 0 {
			ms, _ := pxOf(a.TTL)
			e.exp = f.nowMs() + ms
		}
		f.data[key] = e
		if e.exp != 0 && e.exp <= f.nowMs() {
			delete(f.data, key)
		}
	}
	switch {
	case a.Get && had:
		return redis.NewStatusResult(strings.Clone(old.val), nil)
	case a.Get || blocked:
		return redis.NewStatusResult("", redis.Nil)
	}
	return redis.NewStatusResult("OK", nil)
}

func (f *fakeRedis) GetSet(ctx context.Context, key string, value interface{}) *redis.StringCmd {
	f.gate(ctx)
	f.mu.Lock()
	defer f.mu.Unlock()
	if err := f.refuse(ctx, "getset"); err != nil {
		return redis.NewStringResult("", err)
	}
	f.logf("getset %s", short(key))
	old, had := f.live(key)
	f.data[key] = fentry{val: str(value)}
	if !had {
		return redis.NewStringResult("", f.missing())
	}
	return redis.NewStringResult(strings.Clone(old.val), nil)
}

func (f *fakeRedis) rename(ctx context.Context, what, key, newkey string, nx bool) (bool, error) {
	f.gate(ctx)
	f.mu.Lock()
	defer f.mu.Unlock()
	if err := f.refuse(ctx, what); err != nil {
		return false, err
	}
	f.logf("%s %s %s", what, short(key), short(newkey))
	e, ok := f.live(key)
	if !ok {
		return false, errors.New("ERR no such key")
	}
	if _, had := f.live(newkey); had && nx {
		return false, nil
	}
	delete(f.data, key)
	f.data[newkey] = e
	return true, nil
}
func (f *fakeRedis) Rename(ctx context.Context, key, newkey string) *redis.StatusCmd {
	if _, err := f.rename(ctx, "rename", key, newkey, false); err != nil {
		return redis.NewStatusResult("", err)
	}
	return redis.NewStatusResult("OK", nil)
}
func (f *fakeRedis) RenameNX(ctx context.Context, key, newkey string) *redis.BoolCmd {
	ok, err := f.rename(ctx, "renamenx", key, newkey, true)
	return redis.NewBoolResult(ok, err)
}

func (f *fakeRedis) Copy(ctx context.Context, src, dst string, db int, replace bool) *redis.IntCmd {
	f.gate(ctx)
	f.mu.Lock()
	defer f.mu.Unlock()
	if err := f.refuse(ctx, "copy"); err != nil {
		return redis.NewIntResult(0, err)
	}
	f.logf("copy %s %s db=%d replace=%v", short(src), short(dst), db, replace)
	if db != 0 {
		return redis.NewIntResult(0, errors.New("ERR DB index is out of range"))
	}
	e, ok := f.live(src)
	if _, had := f.live(dst); !ok || had && !replace {
		return redis.NewIntResult(0, nil)
	}
	f.data[dst] = e
	return redis.NewIntResult(1, nil)
}

func (f *fakeRedis) Touch(ctx context.Context, keys ...string) *redis.IntCmd {
	return f.Exists(ctx, keys...)
}

func (f *fakeRedis) StrLen(ctx context.Context, key string) *redis.IntCmd {
	f.gate(ctx)
	f.mu.Lock()
	defer f.mu.Unlock()
	if err := f.refuse(ctx, "strlen"); err != nil {
		return redis.NewIntResult(0, err)
	}
	f.logf("strlen %s", short(key))
	e, _ := f.live(key)
	return redis.NewIntResult(int64(len(e.val)), nil)
}

func (f *fakeRedis) MGet(ctx context.Context, keys ...string) *redis.SliceCmd {
	f.gate(ctx)
	f.mu.Lock()
	defer f.mu.Unlock()
	if err := f.refuse(ctx, "mget"); err != nil {
		return redis.NewSliceResult(nil, err)
	}
	out := make([]interface{}, len(keys))
	for i, k := range keys {
		f.logf("mget %s", short(k))
		if e, ok := f.live(k); ok {
			out[i] = e.val
		}
	}
	return redis.NewSliceResult(out, nil)
}

// ---- commands ttlrds.go does not issue today but a refactor may reasonably reach for.  They
// have the server's semantics, so such a refactor is judged on what the cache then answers.

func (f *fakeRedis) GetEx(ctx context.Context, key string, d time.Duration) *redis.StringCmd {
	f.gate(ctx)
	f.mu.Lock()
	defer f.mu.Unlock()
	if err := f.refuse(ctx, "getex"); err != nil {
		return redis.NewStringResult("", err)
	}
	e, ok := f.live(key)
	if !ok {
		f.logf("getex %s", short(key))
		return redis.NewStringResult("", f.missing())
	}
	switch {
	case d > 0:
		ms, arg := pxOf(d)
		f.logf("getex %s %s (dur=%dns)", short(key), arg, int64(d))
		e.exp = f.nowMs() + ms
	case d == 0:
		f.logf("getex %s persist", short(key))
		e.exp = 0
	default:
		f.logf("getex %s", short(key))
	}
	f.data[key] = e
	return redis.NewStringResult(strings.Clone(e.val), nil)
}

func (f *fakeRedis) SetEx(ctx context.Context, key string, value interface{}, d time.Duration) *redis.StatusCmd {
	f.gate(ctx)
	f.mu.Lock()
	defer f.mu.Unlock()
	if err := f.refuse(ctx, "setex"); err != nil {
		return redis.NewStatusResult("", err)
	}
	s := formatSec(d)
	f.logf("setex %s %d (dur=%dns)", short(key), s, int64(d))
	if s <= 0 {
		return redis.NewStatusResult("", fmt.Errorf("ERR invalid expire time in 'setex' command"))
	}
	f.data[key] = fentry{val: str(value), exp: f.nowMs() + s*1000}
	return redis.NewStatusResult("OK", nil)
}

func (f *fakeRedis) SetXX(ctx context.Context, key string, value interface{}, d time.Duration) *redis.BoolCmd {
	f.gate(ctx)
	f.mu.Lock()
	defer f.mu.Unlock()
	if err := f.refuse(ctx, "set xx"); err != nil {
		return redis.NewBoolResult(false, err)
	}
	old, had := f.live(key)
	e := fentry{val: str(value)}
	switch {
	case d > 0:
		ms, arg := pxOf(d)
		f.logf("set %s %s xx (dur=%dns)", short(key), arg, int64(d))
		e.exp = f.nowMs() + ms
	case d == redis.KeepTTL:
		f.logf("set %s keepttl xx", short(key))
		e.exp = old.exp
	default:
		f.logf("set %s xx (dur=%dns)", short(key), int64(d))
	}
	if !had {
		return redis.NewBoolResult(false, nil)
	}
	f.data[key] = e
	return redis.NewBoolResult(true, nil)
}

func (f *fakeRedis) Exists(ctx context.Context, keys ...string) *redis.IntCmd {
	f.gate(ctx)
	f.mu.Lock()
	defer f.mu.Unlock()
	if err := f.refuse(ctx, "exists"); err != nil {
		return redis.NewIntResult(0, err)
	}
	var n int64
	for _, k := range keys {
		f.logf("exists %s", short(k))
		if _, ok := f.live(k); ok {
			n++
		}
	}
	return redis.NewIntResult(n, nil)
}

func (f *fakeRedis) Unlink(ctx context.Context, keys ...string) *redis.IntCmd {
	return f.Del(ctx, keys...)
}

func (f *fakeRedis) Persist(ctx context.Context, key string) *redis.BoolCmd {
	f.gate(ctx)
	f.mu.Lock()
	defer f.mu.Unlock()
	if err := f.refuse(ctx, "persist"); err != nil {
		return redis.NewBoolResult(false, err)
	}
	f.logf("persist %s", short(key))
	e, ok := f.live(key)
	if !ok || e.exp == 0 {
		return redis.NewBoolResult(false, nil)
	}
	e.exp = 0
	f.data[key] = e
	return redis.NewBoolResult(true, nil)
}

func (f *fakeRedis) ttlOf(ctx context.Context, what, key string) (time.Duration, error) {
	f.gate(ctx)
	f.mu.Lock()
	defer f.mu.Unlock()
	if err := f.refuse(ctx, what); err != nil {
		return 0, err
	}
	f.logf("%s %s", what, short(key))
	e, ok := f.live(key)
	switch {
	case !ok:
		return -2, nil // go-redis reports the server's -2 / -1 as raw durations
	case e.exp == 0:
		return -1, nil
	}
	return time.Duration(e.exp-f.nowMs()) * time.Millisecond, nil
}

func (f *fakeRedis) TTL(ctx context.Context, key string) *redis.DurationCmd {
	d, err := f.ttlOf(ctx, "ttl", key)
	if d > 0 {
		d = (d + time.Second/2) / time.Second * time.Second
	}
	return redis.NewDurationResult(d, err)
}

func (f *fakeRedis) PTTL(ctx context.Context, key string) *redis.DurationCmd {
	d, err := f.ttlOf(ctx, "pttl", key)
	return redis.NewDurationResult(d, err)
}

func (f *fakeRedis) Keys(ctx context.Context, pattern string) *redis.StringSliceCmd {
	f.gate(ctx)
	f.mu.Lock()
	defer f.mu.Unlock()
	if err := f.refuse(ctx, "keys"); err != nil {
		return redis.NewStringSliceResult(nil, err)
	}
	f.logf("keys %s", pattern)
	if !strings.HasSuffix(pattern, "*") || strings.ContainsAny(strings.TrimSuffix(pattern, "*"), "*?[\\") {
		return redis.NewStringSliceResult(nil, fmt.Errorf("fake redis: unsupported pattern %q", pattern))
	}
	pre := strings.TrimSuffix(pattern, "*")
	out := make([]string, 0)
	for k := range f.data {
		if _, ok := f.live(k); ok && strings.HasPrefix(k, pre) {
			out = append(out, k)
		}
	}
	sort.Strings(out)
	return redis.NewStringSliceResult(out, nil)
}

func onPanic(p interface{}) tr.E { return rp(fmt.Sprintf("panic: %v", p), 0) }

// Scan pages the key space the way a server does: the cursor walks ALL keys of the database in a
// fixed pseudo-random (hash) order, at most COUNT keys (default 10) are visited per call, MATCH
// filters what was visited - so a page may be short or empty when keys of other prefixes lie in
// between - and cursor 0 ends the iteration.  Keys deleted behind the cursor do not disturb it.
// The command is built like go-redis builds it, so ScanCmd.Iterator() re-issues it through
// scanProcess with the returned cursor.
func (f *fakeRedis) Scan(ctx context.Context, cursor uint64, match string, count int64) *redis.ScanCmd {
	args := []interface{}{"scan", cursor}
	if match != "" {
		args = append(args, "match", match)
	}
	if count > 0 {
		args = append(args, "count", count)
	}
	cmd := redis.NewScanCmd(ctx, f.scanProcess, args...)
	_ = f.scanProcess(ctx, cmd)
	return cmd
}

func keyHash(k string) uint64 {
	h := fnv.New32a()
	h.Write([]byte(k))
	return uint64(h.Sum32())
}

func (f *fakeRedis) scanProcess(ctx context.Context, c redis.Cmder) error {
	f.gate(ctx)
	f.mu.Lock()
	defer f.mu.Unlock()
	cmd, ok := c.(*redis.ScanCmd)
	if !ok {
		return fmt.Errorf("fake redis: scanProcess on %T", c)
	}
	if err := f.refuse(ctx, "scan"); err != nil {
		cmd.SetErr(err)
		return err
	}
	args := cmd.Args()
	var cursor uint64
	switch x := args[1].(type) {
	case uint64:
		cursor = x
	case int64:
		cursor = uint64(x)
	case int:
		cursor = uint64(x)
	}
	match, count := "*", int64(10)
	for i := 2; i+1 < len(args); i += 2 {
		switch fmt.Sprint(args[i]) {
		case "match":
			match = fmt.Sprint(args[i+1])
		case "count":
			if n, ok := args[i+1].(int64); ok && n > 0 {
				count = n
			}
		}
	}
	if !strings.HasSuffix(match, "*") || strings.ContainsAny(strings.TrimSuffix(match, "*"), "*?[\\") {
		err := fmt.Errorf("fake redis: unsupported pattern %q", match)
		cmd.SetErr(err)
		return err
	}
	pre := strings.TrimSuffix(match, "*")
	type hk struct {
		h uint64
		k string
	}
	all := make([]hk, 0, len(f.data))
	for k := range f.data {
		if _, ok := f.live(k); ok {
			if h := keyHash(k); h >= cursor {
				all = append(all, hk{h, k})
			}
		}
	}
	sort.Slice(all, func(a, b int) bool {
		if all[a].h != all[b].h {
			return all[a].h < all[b].h
		}
		return all[a].k < all[b].k
	})
	n := int(count)
	for n < len(all) && n > 0 && all[n].h == all[n-1].h { // equal hashes are visited together
		n++
	}
	var next uint64
	if n < len(all) {
		next = all[n-1].h + 1
	} else {
		n = len(all)
	}
	page := make([]string, 0, n)
	for _, e := range all[:n] {
		if strings.HasPrefix(e.k, pre) {
			page = append(page, e.k)
		}
	}
	f.logf("scan %d match %s count %d -> %d keys, cursor %d", cursor, match, count, len(page), next)
	cmd.SetVal(page, next)
	return nil
}

// ---------------------------------------------------------------- executors

func allKeys(nk int) []int {
	ks := make([]int, nk)
	for i := range ks {
		ks[i] = i + 1
	}
	return ks
}

func tick(d int) { atomic.AddInt64(&clock, int64(d)) }

// sink writes a history's events at once (flushed per event: crash evidence survives) or, for
// the histories that keep returned slices until the end, after the retained results are rendered.
type sink struct {
	w    *tr.W
	lazy bool
	buf  []tr.E
}

func (k *sink) emit(e tr.E) {
	if k.lazy {
		k.buf = append(k.buf, e)
		return
	}
	k.w.Emit(e)
}

func (k *sink) end(suts ...*sut) {
	inmut, stuck := true, 0
	for _, s := range suts {
		if !s.render() {
			inmut = false
		}
		if s.dead {
			stuck++
		}
	}
	for _, e := range k.buf {
		k.w.Emit(e)
	}
	k.buf = nil
	k.w.Emit(tr.E{"ev": "end", "inmut": inmut, "stuck": stuck})
}

// decoy: a second, independent cache of the same kind used by the same caller between the
// judged calls, with the same key names (on redis: another prefix of the same server).  What it
// answers is not judged; whatever it does must not show in the judged cache.
type decoy struct {
	s   *sut
	rng *rand.Rand
	nk  int
	nv  int
}

func (d *decoy) poke() {
	if d == nil || d.s.dead || d.rng.Intn(3) != 0 {
		return
	}
	k := d.rng.Intn(d.nk) + 1
	d.nv++
	var a act
	switch x := d.rng.Intn(10); {
	case x < 4:
		a = act{Op: "set", K: k, V: 100000 + d.nv, Nx: d.rng.Intn(3) == 0, Ht: d.rng.Intn(2) == 0, TTL: 1 + d.rng.Intn(4)}
	case x < 6:
		a = act{Op: "get", K: k, Rm: d.rng.Intn(2) == 0, Upd: d.rng.Intn(3) == 0, TTL: 1 + d.rng.Intn(4)}
	case x < 8:
		a = act{Op: "rem", K: k}
	case x < 9:
		a = act{Op: "clear"}
	default:
		a = act{Op: "probe", Ks: allKeys(d.nk)}
	}
	d.s.call(a)
}

func cfgRaw(size, dttl int) string { return fmt.Sprintf("size=%d ttl=%d", size, dttl) }

// runMem executes a history on the in-memory cache alone.
func runMem(w *tr.W, src string, size, dttl, nk, now, idx int, acts []act) {
	atomic.StoreInt64(&clock, int64(now))
	lazy := idx%2 == 1
	out := &sink{w: w, lazy: lazy}
	s := newSut(cache.NewTTLMemCache(size, int64(dttl)), idx, lazy)
	s.own = 1
	var dc *decoy
	if idx%3 != 0 {
		dc = &decoy{s: newSut(cache.NewTTLMemCache(3, 2), idx, false), rng: rand.New(rand.NewSource(int64(idx)*7919 + int64(now))), nk: nk}
	}
	w.Emit(tr.E{"ev": "reset", "size": clampI(size), "dttl": clampI(dttl), "nk": nk, "now": now, "threads": 1,
		"impl": "mem", "src": src, "cfg": cfgRaw(size, dttl), "lazy": lazy})
	for _, a := range acts {
		if a.Op == "tick" {
			tick(a.D)
			out.emit(tr.E{"ev": "call", "a": a.rec(), "r": rp("ok", 0)})
			continue
		}
		dc.poke()
		if a.N > 1 {
			segs, im, _ := s.run(a, a.N)
			out.emit(tr.E{"ev": "run", "a": a.rec(), "n": a.N, "segs": segs, "inmut": im})
			if s.dead {
				break
			}
			continue
		}
		r, im := s.call(a)
		e := tr.E{"ev": "call", "a": a.rec(), "r": r}
		if a.Op == "set" {
			e["inmut"] = im
		}
		out.emit(e)
		if s.dead {
			break
		}
	}
	if dc != nil {
		out.end(s, dc.s)
	} else {
		out.end(s)
	}
}

func seedServer(fr *fakeRedis, nk int) []string {
	// keys of other prefixes live in the same server, interleave with ours in SCAN order and
	// must survive Clear
	foreign := []string{"other:1", "ttl", "ttlx:k1", "tt:k2", "k1", "session:9f", "z"}
	for n := 0; n < 3*nk/2; n++ {
		foreign = append(foreign, "cfg:"+strconv.Itoa(n))
	}
	for _, k := range foreign {
		fr.data[k] = fentry{val: "x"}
	}
	return foreign
}

func lostForeign(fr *fakeRedis, foreign []string) int {
	gone := 0
	for _, k := range foreign {
		if _, ok := fr.data[k]; !ok {
			gone++
		}
	}
	return gone
}

// runBoth executes a history on the in-memory cache and on the redis-backed cache over the
// fake server, in lock step under the same clock.
func runBoth(w *tr.W, src string, size, dttl, nk, now, idx int, acts []act) {
	atomic.StoreInt64(&clock, int64(now))
	fr := newFake()
	lazy := idx%2 == 1
	out := &sink{w: w, lazy: lazy}
	pfx := prefixes[idx%len(prefixes)]
	m := newSut(cache.NewTTLMemCache(size, int64(dttl)), idx, lazy)
	r := newSutP(cache.NewTTLRdsCache(fr, "ttl:"+pfx, int64(dttl)), idx+1, lazy, "ttl:"+pfx, idx/2)
	m.own, r.own = 1, 2
	foreign := seedServer(fr, nk)
	var dc *decoy
	if idx%3 != 0 {
		dc = &decoy{s: newSut(cache.NewTTLRdsCache(fr, "dcy:"+pfx, 3), idx+1, false), rng: rand.New(rand.NewSource(int64(idx)*104729 + int64(now))), nk: nk}
	}
	w.Emit(tr.E{"ev": "reset", "size": clampI(size), "dttl": clampI(dttl), "nk": nk, "now": now, "threads": 1,
		"impl": "both", "src": src, "cfg": cfgRaw(size, dttl), "lazy": lazy})
	for _, a := range acts {
		if a.Op == "tick" {
			tick(a.D)
			out.emit(tr.E{"ev": "call2", "a": a.rec(), "r": rp("ok", 0), "rr": rp("ok", 0), "cmds": fr.take()})
			continue
		}
		dc.poke()
		fr.take()
		mr, im := m.call(a)
		rr, im2 := r.call(a)
		e := tr.E{"ev": "call2", "a": a.rec(), "r": mr, "rr": rr, "cmds": fr.take()}
		if a.Op == "set" {
			e["inmut"] = im && im2
		}
		out.emit(e)
		if m.dead || r.dead {
			break
		}
	}
	if lostForeign(fr, foreign) > 0 {
		// Clear removed a key outside its prefix: make it visible to the spec
		out.emit(tr.E{"ev": "call2", "a": tr.E{"op": "clear"}, "r": rp("ok", 0),
			"rr": rp("foreign key deleted by Clear", 0), "cmds": fr.take()})
	}
	if dc != nil {
		out.end(m, r, dc.s)
	} else {
		out.end(m, r)
	}
}

// runRds executes a region history on the redis-backed cache alone, with failures as inputs:
// a.Inj = "fault" makes the server refuse the call's first command, a.Inj = "ctx" hands the call
// a context that has already ended (cancelled / deadline in the past).  Either way the call must
// report a failure (Clear has no result) and change nothing.  The value buffer is reused across
// Sets, as a caller of a store that copies on the wire may do; an empty cache prefix is used when
// the server holds no other keys.
func runRds(w *tr.W, src string, dttl, nk, now, idx int, acts []act) {
	atomic.StoreInt64(&clock, int64(now))
	fr := newFake()
	lazy := idx%2 == 1
	out := &sink{w: w, lazy: lazy}
	pfx := "ttl:" + prefixes[idx%len(prefixes)]
	var foreign []string
	var dc *decoy
	if idx%4 == 3 {
		pfx = "" // the whole database belongs to the cache
	} else {
		foreign = seedServer(fr, nk)
		dc = &decoy{s: newSut(cache.NewTTLRdsCache(fr, "dcy:", 3), idx, false), rng: rand.New(rand.NewSource(int64(idx)*15485863 + int64(now))), nk: nk}
	}
	s := newSutP(cache.NewTTLRdsCache(fr, pfx, int64(dttl)), idx, lazy, pfx, idx/3)
	s.scr = make([]byte, 0, 16)
	s.own = 2
	w.Emit(tr.E{"ev": "reset", "size": nk + 5, "dttl": clampI(dttl), "nk": nk, "now": now, "threads": 1,
		"impl": "rds", "src": src, "cfg": cfgRaw(nk+5, dttl), "lazy": lazy})
	for _, a := range acts {
		if a.Op == "tick" {
			tick(a.D)
			out.emit(tr.E{"ev": "call", "a": a.rec(), "r": rp("ok", 0)})
			continue
		}
		dc.poke()
		fr.take()
		if a.N > 1 {
			fr.quiet = true
			segs, im, _ := s.run(a, a.N)
			fr.quiet = false
			out.emit(tr.E{"ev": "run", "a": a.rec(), "n": a.N, "segs": segs, "inmut": im})
			if s.dead {
				break
			}
			continue
		}
		fr.fail = a.Inj == "fault"
		r, im := s.call(a)
		fr.fail = false
		e := tr.E{"ev": "call", "a": a.rec(), "r": r, "cmds": fr.take()}
		if a.Inj != "" {
			e["inj"] = a.Inj
		}
		if a.Op == "set" {
			e["inmut"] = im
		}
		out.emit(e)
		if s.dead {
			break
		}
	}
	if lostForeign(fr, foreign) > 0 {
		out.emit(tr.E{"ev": "call", "a": tr.E{"op": "clear"}, "r": rp("foreign key deleted by Clear", 0), "cmds": fr.take()})
	}
	if dc != nil {
		out.end(s, dc.s)
	} else {
		out.end(s)
	}
}

func readPlan(path string) []act {
	f, err := os.Open(path)
	if err != nil {
		tr.Fatal("%v", err)
	}
	defer f.Close()
	var out []act
	sc := bufio.NewScanner(f)
	sc.Buffer(make([]byte, 1<<20), 1<<24)
	for sc.Scan() {
		var p planLine
		if err := json.Unmarshal(sc.Bytes(), &p); err != nil {
			tr.Fatal("plan %s: %v", path, err)
		}
		out = append(out, p.A)
	}
	return out
}

func planFiles(dir string) []string {
	if dir == "" {
		return nil
	}
	files, _ := filepath.Glob(filepath.Join(dir, "*.ndjson"))
	sort.Slice(files, func(i, j int) bool {
		if len(files[i]) != len(files[j]) {
			return len(files[i]) < len(files[j])
		}
		return files[i] < files[j]
	})
	return files
}

// ---------------------------------------------------------------- seeded histories
type gen struct {
	rng  *rand.Rand
	nk   int
	dttl int
	now  int
	nv   int
	dls  []int // deadlines handed out so far (for boundary-biased ticks)
}

// extremes of the integer range (no clock comes within 10^9 of the deadlines they give)
// around the widths a counter or a field may have been narrowed to
var widths = []int{255, 256, 257, 65535, 65536, 65537}
var runLens = widths
var hugeTTL = []int{1 << 31, 1<<32 + 5, 1 << 40, 1 << 62}
var hugeNeg = []int{-1 << 31, -1 << 40, math.MinInt64}

func (g *gen) ttlChoice() int {
	if g.rng.Intn(30) == 0 {
		return widths[g.rng.Intn(len(widths))]
	}
	if g.rng.Intn(25) == 0 {
		if g.rng.Intn(2) == 0 {
			return hugeNeg[g.rng.Intn(len(hugeNeg))]
		}
		return hugeTTL[g.rng.Intn(len(hugeTTL))]
	}
	switch x := g.rng.Intn(10); {
	case x == 0:
		return 0
	case x == 1:
		return -1 - g.rng.Intn(3)
	case x < 6:
		return 1 + g.rng.Intn(3)
	default:
		return 1 + g.rng.Intn(9)
	}
}

func (g *gen) note(ttl int) {
	if ttl > 0 && ttl < 1000000 {
		g.dls = append(g.dls, g.now+ttl)
	}
}

// tickTo picks a clock advance: mostly onto, just before or just after a pending deadline
func (g *gen) tickD() int {
	var fut []int
	for _, d := range g.dls {
		if d >= g.now {
			fut = append(fut, d)
		}
	}
	g.dls = fut
	if len(fut) > 0 && g.rng.Intn(4) != 0 {
		d := fut[g.rng.Intn(len(fut))] + g.rng.Intn(3) - 1 - g.now
		if d >= 1 {
			return d
		}
	}
	return 1 + g.rng.Intn(3)
}

func (g *gen) memAct() act {
	k := g.rng.Intn(g.nk) + 1
	switch x := g.rng.Intn(100); {
	case x < 34:
		g.nv++
		a := act{Op: "set", K: k, V: g.nv, Nx: g.rng.Intn(3) == 0, Keep: g.rng.Intn(3) == 0}
		if g.rng.Intn(12) == 0 {
			a.V = 0 // the empty value
		} else if g.rng.Intn(15) == 0 {
			a.V = 1000001 + g.rng.Intn(255) // a one-byte value
		}
		if g.rng.Intn(2) == 0 {
			a.Ht, a.TTL = true, g.ttlChoice()
			g.note(a.TTL)
		} else {
			g.note(g.dttl)
		}
		return a
	case x < 64:
		a := act{Op: "get", K: k, Rm: g.rng.Intn(4) == 0}
		if g.rng.Intn(3) == 0 {
			a.Upd = true
			if g.rng.Intn(3) != 0 {
				a.TTL = g.ttlChoice()
			}
			if a.TTL != 0 {
				g.note(a.TTL)
			} else {
				g.note(g.dttl)
			}
		}
		return a
	case x < 82:
		d := g.tickD()
		g.now += d
		return act{Op: "tick", D: d}
	case x < 90:
		return act{Op: "rem", K: k}
	case x < 93:
		return act{Op: "clear"}
	default:
		ks := allKeys(g.nk)
		g.rng.Shuffle(len(ks), func(i, j int) { ks[i], ks[j] = ks[j], ks[i] })
		return act{Op: "probe", Ks: ks}
	}
}

func randMem(w *tr.W, rng *rand.Rand, i, maxops int) {
	size := []int{0, 0, 1, 1, 2, 2, 3, 4, 6, 9}[rng.Intn(10)]
	nk := 2 + rng.Intn(11)
	if rng.Intn(3) == 0 {
		nk = size + 1 + rng.Intn(2) // just above the bound
	}
	if i%12 == 5 {
		size = []int{math.MaxInt32 + 1, 1 << 32, 1<<32 + 1, 1 << 40, math.MaxInt}[rng.Intn(5)]
	}
	if i%12 == 9 {
		size = widths[rng.Intn(len(widths))]
	}
	dttl := []int{-3, 0, 0, 1, 2, 3, 5, 8}[rng.Intn(8)]
	if i%10 == 7 {
		dttl = append(append([]int{}, hugeTTL...), hugeNeg...)[rng.Intn(len(hugeTTL)+len(hugeNeg))]
	}
	now := 1 + rng.Intn(1000000)
	g := &gen{rng: rng, nk: nk, dttl: dttl, now: now}
	n := 5 + rng.Intn(maxops)
	acts := make([]act, 0, n+1)
	if i%5 == 3 {
		acts = g.shape(size)
	}
	runAt := -1
	if i%9 == 4 {
		runAt = rng.Intn(n)
	}
	for j := 0; j < n; j++ {
		a := g.memAct()
		if j == runAt && a.Op != "tick" && a.Op != "probe" {
			a.N = runLens[rng.Intn(len(runLens))] // the same call that many times
		}
		acts = append(acts, a)
		if a.N == 0 && a.Op != "tick" && a.Op != "probe" && rng.Intn(15) == 0 {
			acts = append(acts, a) // the very same call twice
		}
	}
	acts = append(acts, act{Op: "probe", Ks: allKeys(nk)})
	runMem(w, "rand", size, dttl, nk, now, i, acts)
}

// shape drives a fresh cache into one shape class and then takes the structural operations
// (clear, iteration by probe, insertion that may evict, set-if-absent, one-shot read) in it.
func (g *gen) shape(size int) []act {
	var acts []act
	rng := g.rng
	m := size
	if m > g.nk {
		m = g.nk
	}
	fill := func(n, ttl int) {
		for k := 1; k <= n && k <= g.nk; k++ {
			g.nv++
			acts = append(acts, act{Op: "set", K: k, V: g.nv, Ht: true, TTL: ttl})
			g.note(ttl)
		}
	}
	switch rng.Intn(8) {
	case 0: // never used
	case 1: // exactly full
		fill(m, 20+rng.Intn(5))
	case 2: // one more than fits
		fill(m+1, 20+rng.Intn(5))
	case 3: // emptied by removals
		fill(m, 20)
		for k := 1; k <= m; k++ {
			acts = append(acts, act{Op: "rem", K: k})
		}
	case 4: // emptied by clear
		fill(m+1, 20)
		acts = append(acts, act{Op: "clear"})
	case 5: // one element
		fill(1, 20)
	case 6: // full of entries that have expired in place
		fill(m+1, 2)
		g.now += 3
		acts = append(acts, act{Op: "tick", D: 3})
	case 7: // emptied by one-shot reads
		fill(m, 20)
		for k := 1; k <= m; k++ {
			acts = append(acts, act{Op: "get", K: k, Rm: true})
		}
	}
	for n := 2 + rng.Intn(3); n > 0; n-- {
		k := rng.Intn(g.nk) + 1
		switch rng.Intn(6) {
		case 0, 1:
			acts = append(acts, act{Op: "clear"})
		case 2:
			acts = append(acts, act{Op: "probe", Ks: allKeys(g.nk)})
		case 3:
			g.nv++
			acts = append(acts, act{Op: "set", K: g.nk, V: g.nv})
			g.note(g.dttl)
		case 4:
			g.nv++
			acts = append(acts, act{Op: "set", K: k, V: g.nv, Nx: true})
			g.note(g.dttl)
		default:
			acts = append(acts, act{Op: "get", K: k, Rm: true})
		}
	}
	acts = append(acts, act{Op: "probe", Ks: allKeys(g.nk)})
	return acts
}

// region histories: the generator keeps the (deterministic) liveness of every key so that
// keep-ttl is applied to live keys only and the clock never stops on a live key's deadline.
func randBoth(w *tr.W, rng *rand.Rand, i, maxops int) {
	size, dttl, nk, start, acts := genRegion(rng, i, maxops, false)
	runBoth(w, "randr", size, dttl, nk, start, i, acts)
}

// randRds: the same region histories on the redis-backed cache alone, with failures injected
func randRds(w *tr.W, rng *rand.Rand, i, maxops int) {
	_, dttl, nk, start, acts := genRegion(rng, i, maxops, true)
	if i%7 == 2 {
		// one call of the history is repeated 255..65537 times back to back
		for tries := 0; tries < 20; tries++ {
			a := &acts[rng.Intn(len(acts))]
			if a.Op != "tick" && a.Op != "probe" && a.Inj == "" {
				a.N = runLens[rng.Intn(len(runLens))]
				break
			}
		}
	}
	runRds(w, "randf", dttl, nk, start, i, acts)
}

// ttls that the redis-backed cache can carry (time.Duration holds 292 years)
var bigRegionTTL = []int{1 << 31, 1<<32 + 5, 1 << 33}

func genRegion(rng *rand.Rand, i, maxops int, inject bool) (int, int, int, int, []act) {
	nk := 2 + rng.Intn(9)
	size := nk + rng.Intn(3)
	if i%9 == 4 {
		size = []int{math.MaxInt32 + 1, 1 << 40, math.MaxInt, 255, 256, 65536}[rng.Intn(6)]
	}
	dttl := []int{0, -2, 1, 2, 3, 5, 8}[rng.Intn(7)]
	if i%11 == 6 {
		dttl = bigRegionTTL[rng.Intn(len(bigRegionTTL))]
	}
	now := 1 + rng.Intn(1000000)
	start := now
	// inj decides, for the call being generated, whether it fails; a failed call changes nothing
	inj := func() string {
		if !inject || rng.Intn(6) != 0 {
			return ""
		}
		return []string{"fault", "ctx"}[rng.Intn(2)]
	}
	dl := map[int]int{} // live keys -> deadline
	live := func(k int) bool { d, ok := dl[k]; return ok && now < d }
	pos := func() int {
		if rng.Intn(30) == 0 {
			return bigRegionTTL[rng.Intn(len(bigRegionTTL))]
		}
		if rng.Intn(30) == 0 {
			return widths[rng.Intn(len(widths))]
		}
		if rng.Intn(2) == 0 {
			return 1 + rng.Intn(3)
		}
		return 1 + rng.Intn(9)
	}
	nv := 0
	n := 5 + rng.Intn(maxops)
	acts := make([]act, 0, n+1)
	if i%3 == 2 {
		// a key space that needs several SCAN pages: fill, Clear, then ask for every key
		nk = 12 + rng.Intn(29)
		if rng.Intn(2) == 0 {
			nk = []int{9, 10, 11, 19, 20, 21, 29, 30, 31}[rng.Intn(9)] // around multiples of SCAN's page
		}
		size = nk + rng.Intn(3)
		for _, k := range rng.Perm(nk) {
			if rng.Intn(8) == 0 {
				continue
			}
			nv++
			a := act{Op: "set", K: k + 1, V: nv, Ht: true, TTL: 30 + rng.Intn(30), Nx: rng.Intn(4) == 0}
			dl[a.K] = now + a.TTL
			acts = append(acts, a)
		}
		acts = append(acts, act{Op: "clear"})
		dl = map[int]int{}
		if rng.Intn(2) == 0 {
			acts = append(acts, act{Op: "probe", Ks: allKeys(nk)})
		}
		for _, k := range rng.Perm(nk) {
			if rng.Intn(3) == 0 {
				continue
			}
			nv++
			a := act{Op: "set", K: k + 1, V: nv, Ht: true, TTL: 30 + rng.Intn(30), Nx: true}
			dl[a.K] = now + a.TTL
			acts = append(acts, a)
		}
		acts = append(acts, act{Op: "probe", Ks: allKeys(nk)})
	}
	// slide: an update-ttl read with a ttl SHORTER or LONGER than what the key has left, the clock
	// then moves past the earlier of the two deadlines, the key is read again and set-if-absent
	slide := func() {
		var cand []int
		for _, k := range allKeys(nk) {
			if r := dl[k] - now; live(k) && r >= 3 && r < 1000 {
				cand = append(cand, k)
			}
		}
		if len(cand) == 0 {
			k := rng.Intn(nk) + 1
			nv++
			a := act{Op: "set", K: k, V: nv, Ht: true, TTL: 5 + rng.Intn(5)}
			dl[k] = now + a.TTL
			acts = append(acts, a)
			cand = []int{k}
		}
		k := cand[rng.Intn(len(cand))]
		r := dl[k] - now
		t, d := 1+rng.Intn(r-2), 0
		if rng.Intn(2) == 0 {
			d = t + 1 // past the new, shorter deadline, before the old one
		} else {
			t, d = r+2+rng.Intn(4), r+1 // past the old deadline, before the new one
		}
		acts = append(acts, act{Op: "get", K: k, Upd: true, TTL: t})
		dl[k] = now + t
		for kk, e := range dl {
			if live(kk) && e == now+d {
				return
			}
		}
		now += d
		acts = append(acts, act{Op: "tick", D: d}, act{Op: "get", K: k})
		nv++
		a := act{Op: "set", K: k, V: nv, Ht: true, TTL: 2 + rng.Intn(6), Nx: true}
		if !live(k) {
			dl[k] = now + a.TTL
		}
		acts = append(acts, a, act{Op: "get", K: k})
	}
	for j := 0; j < n; j++ {
		if rng.Intn(12) == 0 {
			slide()
			continue
		}
		k := rng.Intn(nk) + 1
		switch x := rng.Intn(100); {
		case x < 36:
			nv++
			a := act{Op: "set", K: k, V: nv, Nx: rng.Intn(3) == 0}
			eff := dttl
			if dttl <= 0 || rng.Intn(2) == 0 {
				a.Ht, a.TTL = true, pos()
				eff = a.TTL
			}
			if live(k) && rng.Intn(3) == 0 {
				a.Keep = true
			}
			if rng.Intn(12) == 0 {
				a.V = 0 // the empty value
			} else if rng.Intn(15) == 0 {
				a.V = 1000001 + rng.Intn(255) // a one-byte value
			}
			a.Inj = inj()
			if a.Inj == "" && !(a.Nx && live(k)) {
				if !(a.Keep && live(k)) {
					dl[k] = now + eff
				}
			}
			acts = append(acts, a)
		case x < 66:
			a := act{Op: "get", K: k, Rm: rng.Intn(4) == 0}
			if rng.Intn(3) == 0 {
				a.Upd = true
				if dttl <= 0 || rng.Intn(3) != 0 {
					a.TTL = pos()
				}
			}
			a.Inj = inj()
			if a.Inj == "" && live(k) {
				if a.Rm {
					delete(dl, k)
				} else if a.Upd {
					if a.TTL != 0 {
						dl[k] = now + a.TTL
					} else {
						dl[k] = now + dttl
					}
				}
			}
			acts = append(acts, a)
		case x < 84:
			// candidates: around a pending deadline, or a small step; never onto a live deadline
			var cands []int
			for _, d := range dl {
				if d > now && d-now < 100000 {
					cands = append(cands, d-1-now, d+1-now)
				}
			}
			cands = append(cands, 1, 2, 3)
			sort.Ints(cands) // map order is random: keep the history a function of the seed
			rng.Shuffle(len(cands), func(a, b int) { cands[a], cands[b] = cands[b], cands[a] })
			for _, d := range cands {
				if d < 1 {
					continue
				}
				ok := true
				for kk, e := range dl {
					if live(kk) && e == now+d {
						ok = false
					}
				}
				if ok {
					now += d
					acts = append(acts, act{Op: "tick", D: d})
					break
				}
			}
		case x < 91:
			a := act{Op: "rem", K: k, Inj: inj()}
			if a.Inj == "" {
				delete(dl, k)
			}
			acts = append(acts, a)
		case x < 94:
			a := act{Op: "clear", Inj: inj()}
			if a.Inj == "" {
				dl = map[int]int{}
			}
			acts = append(acts, a)
		default:
			ks := allKeys(nk)
			rng.Shuffle(len(ks), func(a, b int) { ks[a], ks[b] = ks[b], ks[a] })
			acts = append(acts, act{Op: "probe", Ks: ks})
		}
	}
	acts = append(acts, act{Op: "probe", Ks: allKeys(nk)})
	return size, dttl, nk, start, acts
}

// race runs the programs on goroutines released together by a spin barrier (the calls are far
// shorter than a goroutine wake-up); inv/res are logged under one mutex outside the cache's lock.
// Goroutines that have not come back when the watchdog fires are counted, not waited for.
func race(s *sut, progs [][]act) ([]tr.E, int) {
	var mu sync.Mutex
	evs := make([]tr.E, 0, 8*len(progs))
	logf := func(e tr.E) {
		mu.Lock()
		evs = append(evs, e)
		mu.Unlock()
	}
	done := make(chan struct{}, len(progs))
	var ready, start int32
	for t := range progs {
		go func(t int) {
			atomic.AddInt32(&ready, 1)
			for atomic.LoadInt32(&start) == 0 {
			}
			for _, b := range progs[t] {
				logf(tr.E{"ev": "inv", "t": t + 1, "a": b.rec()})
				r, _ := s.do(b)
				logf(tr.E{"ev": "res", "t": t + 1, "r": r})
			}
			done <- struct{}{}
		}(t)
	}
	for atomic.LoadInt32(&ready) < int32(len(progs)) {
		runtime.Gosched()
	}
	atomic.StoreInt32(&start, 1)
	timer := time.NewTimer(watchdogPeriod())
	defer timer.Stop()
	stuck := 0
	for n := 0; n < len(progs) && stuck == 0; {
		select {
		case <-done:
			n++
		case <-timer.C:
			stuck = len(progs) - n
			s.dead = true
			noteStuck()
		}
	}
	mu.Lock()
	out := append([]tr.E{}, evs...)
	mu.Unlock()
	return out, stuck
}

func raceOp(rng *rand.Rand, k, nk int, nv *int) act {
	if rng.Intn(10) < 3 {
		k = rng.Intn(nk) + 1
	}
	switch x := rng.Intn(20); {
	case x < 9:
		return act{Op: "get", K: k, Rm: true}
	case x < 11:
		return act{Op: "get", K: k}
	case x < 12:
		return act{Op: "get", K: k, Upd: true, TTL: 3 + rng.Intn(3)}
	case x < 14:
		*nv++
		return act{Op: "set", K: k, V: *nv, Nx: true}
	case x < 16:
		*nv++
		return act{Op: "set", K: k, V: *nv}
	case x < 18:
		return act{Op: "rem", K: k}
	default:
		return act{Op: "clear"}
	}
}

// concurrent rounds on the in-memory cache: goroutines race on one key (mostly
// remove-after-get reads, but every call of the interface takes part); "heavy" rounds race one
// Clear of a filled cache against callers that only read.
func runConc(w *tr.W, rng *rand.Rand, i int) {
	threads := 2 + rng.Intn(3)
	nk := 1 + rng.Intn(4)
	size := nk + rng.Intn(2)
	if rng.Intn(5) == 0 {
		size = 1
	}
	dttl := []int{0, 4}[rng.Intn(2)]
	now := 1 + rng.Intn(1000)
	atomic.StoreInt64(&clock, int64(now))
	lazy := i%2 == 1
	out := &sink{w: w, lazy: lazy}
	s := newSut(cache.NewTTLMemCache(size, int64(dttl)), i, lazy)
	w.Emit(tr.E{"ev": "reset", "size": size, "dttl": dttl, "nk": nk, "now": now, "threads": threads,
		"impl": "mem", "src": "conc", "lazy": lazy})
	nv := 0
	rounds := 2 + rng.Intn(3)
	for rd := 0; rd < rounds && !s.dead; rd++ {
		k := rng.Intn(nk) + 1
		heavy := rng.Intn(4) == 0
		for _, kk := range allKeys(nk) {
			if kk == k || heavy {
				nv++
				a := act{Op: "set", K: kk, V: nv}
				r, im := s.call(a)
				out.emit(tr.E{"ev": "call", "a": a.rec(), "r": r, "inmut": im})
			}
		}
		if rng.Intn(4) == 0 {
			d := 1 + rng.Intn(4)
			tick(d)
			out.emit(tr.E{"ev": "call", "a": act{Op: "tick", D: d}.rec(), "r": rp("ok", 0)})
		}
		progs := make([][]act, threads)
		for t := range progs {
			if heavy {
				if t == 0 {
					progs[t] = []act{{Op: "clear"}}
				} else {
					progs[t] = []act{{Op: "get", K: rng.Intn(nk) + 1}, {Op: "get", K: rng.Intn(nk) + 1}}
				}
				continue
			}
			for n := 1 + rng.Intn(2); n > 0; n-- {
				progs[t] = append(progs[t], raceOp(rng, k, nk, &nv))
			}
		}
		evs, stuck := race(s, progs)
		for _, e := range evs {
			out.emit(e)
		}
		if stuck > 0 {
			out.emit(tr.E{"ev": "stuck", "n": stuck})
		}
	}
	if !s.dead {
		p := act{Op: "probe", Ks: allKeys(nk)}
		r, _ := s.call(p)
		out.emit(tr.E{"ev": "call", "a": p.rec(), "r": r})
	}
	out.end(s)
}

// cold start: a FRESH cache is first touched by several goroutines released together; many
// cheap rounds, one trace each.
func runCold(w *tr.W, rng *rand.Rand, i int) {
	threads := 2 + rng.Intn(3)
	nk := 1 + rng.Intn(2)
	size := []int{0, 1, 1, 2, 3}[rng.Intn(5)]
	dttl := []int{0, 3}[rng.Intn(2)]
	now := 1 + rng.Intn(1000)
	atomic.StoreInt64(&clock, int64(now))
	lazy := i%2 == 1
	out := &sink{w: w, lazy: lazy}
	s := newSut(cache.NewTTLMemCache(size, int64(dttl)), i, lazy)
	w.Emit(tr.E{"ev": "reset", "size": size, "dttl": dttl, "nk": nk, "now": now, "threads": threads,
		"impl": "mem", "src": "cold", "lazy": lazy})
	nv := 0
	progs := make([][]act, threads)
	for t := range progs {
		for n := 1 + rng.Intn(2); n > 0; n-- {
			var b act
			switch x := rng.Intn(20); {
			case x < 10:
				nv++
				b = act{Op: "set", K: 1, V: nv, Nx: true}
			case x < 14:
				nv++
				b = act{Op: "set", K: rng.Intn(nk) + 1, V: nv}
			case x < 17:
				b = act{Op: "get", K: 1, Rm: true}
			case x < 19:
				b = act{Op: "get", K: 1}
			default:
				b = act{Op: "clear"}
			}
			progs[t] = append(progs[t], b)
		}
	}
	evs, stuck := race(s, progs)
	for _, e := range evs {
		out.emit(e)
	}
	if stuck > 0 {
		out.emit(tr.E{"ev": "stuck", "n": stuck})
	} else {
		p := act{Op: "probe", Ks: allKeys(nk)}
		r, _ := s.call(p)
		out.emit(tr.E{"ev": "call", "a": p.rec(), "r": r})
	}
	out.end(s)
}

// bursts: thousands of tiny races of the one kind the property names - a stored value and 2-4
// callers reading it with remove-after-get at the same instant.  The callers are parked workers
// spinning on a round counter, so they start within nanoseconds of each other; a round is ONE
// compact event (the Set and the replies, hits first - the only order that can explain them).
func runBursts(w *tr.W, rng *rand.Rand, i, rounds int) {
	threads := 2 + rng.Intn(3)
	nk := 2
	size := 1 + rng.Intn(3)
	now := 1 + rng.Intn(1000)
	atomic.StoreInt64(&clock, int64(now))
	s := newSut(cache.NewTTLMemCache(size, 0), i, false)
	w.Emit(tr.E{"ev": "reset", "size": size, "dttl": 0, "nk": nk, "now": now, "threads": 1,
		"impl": "mem", "src": "burst", "lazy": false})
	var round, done, quit int32
	var g act
	res := make([]tr.E, threads)
	for t := 0; t < threads; t++ {
		go func(t int) {
			seen := int32(0)
			for {
				for atomic.LoadInt32(&round) == seen {
					if atomic.LoadInt32(&quit) != 0 {
						return
					}
				}
				seen++
				r, _ := s.do(g)
				res[t] = r.(tr.E)
				atomic.AddInt32(&done, 1)
			}
		}(t)
	}
	nv, stuck := 0, 0
	for rd := 0; rd < rounds && stuck == 0; rd++ {
		k := 1 + rd%nk
		nv++
		a := act{Op: "set", K: k, V: nv}
		ra, _ := s.call(a)
		if s.dead {
			w.Emit(tr.E{"ev": "call", "a": a.rec(), "r": ra})
			break
		}
		g = act{Op: "get", K: k, Rm: true}
		atomic.StoreInt32(&done, 0)
		atomic.AddInt32(&round, 1)
		deadline := time.Now().Add(watchdogPeriod())
		for spins := 0; atomic.LoadInt32(&done) < int32(threads); spins++ {
			if spins%4096 == 4095 && time.Now().After(deadline) {
				stuck = threads - int(atomic.LoadInt32(&done))
				s.dead = true
				noteStuck()
				break
			}
		}
		if stuck > 0 {
			w.Emit(tr.E{"ev": "stuck", "n": stuck})
			break
		}
		rs := make([]tr.E, 0, threads)
		for _, hitsFirst := range []bool{true, false} {
			for _, r := range res {
				if (r["c"] == "hit") == hitsFirst {
					rs = append(rs, r)
				}
			}
		}
		w.Emit(tr.E{"ev": "burst", "a": a.rec(), "ra": ra, "g": g.rec(), "rs": rs})
	}
	atomic.StoreInt32(&quit, 1)
	(&sink{w: w}).end(s)
}

// racing callers on ONE key of the redis-backed cache.  Every command the cache sends to the fake
// server is a scheduling point: the caller parks at the gate and the driver serves the parked
// callers one command at a time in an order drawn from the seeded generator, so exactly one
// caller runs at any time and the recorded inv/res log is totally ordered and reproducible.
// Programs use single-key calls without update-ttl (Get + Expire is not atomic by design) and
// the clock never comes near a deadline; TLC infers the linearization.
func runRdsConc(w *tr.W, rng *rand.Rand, i int) {
	threads := 2 + rng.Intn(3)
	if rng.Intn(2) == 0 {
		threads = 2
	}
	nk := 1 + rng.Intn(2)
	dttl := []int{0, 10}[rng.Intn(2)]
	now := 1 + rng.Intn(1000)
	atomic.StoreInt64(&clock, int64(now))
	fr := newFake()
	c := cache.NewTTLRdsCache(fr, "ttl:"+prefixes[i%len(prefixes)], int64(dttl))
	lazy := i%2 == 1
	out := &sink{w: w, lazy: lazy}
	s := newSut(c, i, lazy)
	suts := []*sut{s}
	w.Emit(tr.E{"ev": "reset", "size": nk + 2, "dttl": dttl, "nk": nk, "now": now, "threads": threads,
		"impl": "rds", "src": "rconc", "lazy": lazy})
	nv, ticks := 0, 0
	rounds := 2 + rng.Intn(3)
	cold := i%3 == 0 // the fresh cache is first used by the racing callers
	if cold {
		rounds = 1
	}
	for rd := 0; rd < rounds && !s.dead; rd++ {
		k := rng.Intn(nk) + 1
		if !cold && rng.Intn(5) != 0 {
			nv++
			a := act{Op: "set", K: k, V: nv}
			r, im := s.call(a)
			out.emit(tr.E{"ev": "call", "a": a.rec(), "r": r, "inmut": im, "cmds": fr.take()})
		}
		if ticks < 3 && rng.Intn(4) == 0 { // ttl 10, at most 3 s per trace: far from every deadline
			ticks++
			tick(1)
			out.emit(tr.E{"ev": "call", "a": act{Op: "tick", D: 1}.rec(), "r": rp("ok", 0)})
		}
		progs := make([][]act, threads)
		for t := range progs {
			for n := 1 + rng.Intn(2); n > 0; n-- {
				var b act
				switch x := rng.Intn(10); {
				case x < 5:
					b = act{Op: "get", K: k, Rm: true}
				case x < 6:
					b = act{Op: "get", K: k}
				case x < 7:
					nv++
					b = act{Op: "set", K: k, V: nv, Nx: true}
				case x < 9:
					nv++
					b = act{Op: "set", K: k, V: nv}
				default:
					b = act{Op: "rem", K: k}
				}
				if rng.Intn(12) == 0 {
					b.Inj = "ctx" // this caller's context has already ended
				}
				progs[t] = append(progs[t], b)
			}
		}
		sc := &sched{ev: make(chan sig), grant: make([]chan struct{}, threads)}
		for t := range sc.grant {
			sc.grant[t] = make(chan struct{})
		}
		fr.sch = sc
		evs := make([]tr.E, 0, 8*threads) // appended by the one running caller only
		state := make([]int, threads)
		stuck := 0
		// next waits for the running caller to park at a gate or to finish; a caller that does
		// neither within the watchdog is reported, not waited for
		next := func() bool {
			t := time.NewTimer(watchdogPeriod())
			defer t.Stop()
			select {
			case sg := <-sc.ev:
				state[sg.p] = sg.kind
				return true
			case <-t.C:
				stuck++
				noteStuck()
				return false
			}
		}
		for t := 0; t < threads && stuck == 0; t++ {
			me := newSut(c, i, lazy)
			me.ctx = context.WithValue(context.Background(), callerKey{}, t)
			suts = append(suts, me)
			go func(t int) {
				for _, b := range progs[t] {
					e := tr.E{"ev": "inv", "t": t + 1, "a": b.rec()}
					if b.Inj != "" {
						e["inj"] = b.Inj
					}
					evs = append(evs, e)
					r, _ := me.do(b)
					evs = append(evs, tr.E{"ev": "res", "t": t + 1, "r": r})
				}
				sc.ev <- sig{t, finished}
			}(t)
			next() // runs until its first command (or to the end)
		}
		for stuck == 0 {
			var parked []int
			for t, st := range state {
				if st == atGate {
					parked = append(parked, t)
				}
			}
			if len(parked) == 0 {
				break
			}
			p := parked[rng.Intn(len(parked))]
			state[p] = 0
			sc.grant[p] <- struct{}{}
			next()
		}
		cmds := fr.take()
		for _, e := range evs {
			out.emit(e)
		}
		if stuck > 0 {
			s.dead = true
			out.emit(tr.E{"ev": "stuck", "n": stuck, "cmds": cmds})
			break
		}
		fr.sch = nil
		// what the round left behind (a Set that landed in between must still be there)
		p := act{Op: "probe", Ks: allKeys(nk)}
		r, _ := s.call(p)
		out.emit(tr.E{"ev": "call", "a": p.rec(), "r": r, "cmds": cmds})
		fr.take()
	}
	out.end(suts...)
}

func main() {
	plans := flag.String("plans", "", "directory of TLC plans for the in-memory cache")
	plansr := flag.String("plansr", "", "directory of TLC plans inside the comparison region")
	out := flag.String("out", "mem.ndjson", "in-memory traces")
	both := flag.String("both", "both.ndjson", "mem + redis lock-step traces")
	conc := flag.String("conc", "conc.ndjson", "concurrent traces")
	seed := flag.Int64("seed", 1, "seed")
	nhist := flag.Int("hist", 200, "random in-memory histories")
	nboth := flag.Int("nboth", 150, "random region histories")
	nconc := flag.Int("nconc", 60, "concurrent histories")
	nrds := flag.Int("nrds", 60, "region histories on the redis-backed cache alone, failures injected")
	nburst := flag.Int("nburst", 1500, "remove-after-get bursts on the in-memory cache (one event each)")
	ncold := flag.Int("ncold", 100, "cold-start races on a fresh in-memory cache")
	nrconc := flag.Int("nrconc", 60, "concurrent histories on the redis-backed cache (scheduled commands)")
	maxops := flag.Int("maxops", 60, "max ops per history")
	flag.Parse()
	rng := rand.New(rand.NewSource(*seed))
	restore := cache.VerifSetNow(nowSec)
	defer restore()

	w := tr.Create(*out)
	for i, f := range planFiles(*plans) {
		if giveUp() {
			break
		}
		p := readPlan(f)
		if len(p) == 0 || p[0].Op != "init" {
			tr.Fatal("plan %s does not start with init", f)
		}
		runMem(w, "plan:"+filepath.Base(f), p[0].Size, p[0].Dttl, p[0].Nk, p[0].Now, i, p[1:])
	}
	for i := 0; i < *nhist && !giveUp(); i++ {
		randMem(w, rng, i, *maxops)
	}
	w.Close()

	bw := tr.Create(*both)
	for i, f := range planFiles(*plansr) {
		if giveUp() {
			break
		}
		p := readPlan(f)
		if len(p) == 0 || p[0].Op != "init" {
			tr.Fatal("plan %s does not start with init", f)
		}
		runBoth(bw, "planr:"+filepath.Base(f), p[0].Size, p[0].Dttl, p[0].Nk, p[0].Now, i, p[1:])
	}
	for i := 0; i < *nboth && !giveUp(); i++ {
		randBoth(bw, rng, i, *maxops)
	}
	for i := 0; i < *nrds && !giveUp(); i++ {
		randRds(bw, rng, i, *maxops)
	}
	bw.Close()

	cw := tr.Create(*conc)
	for i := 0; i < *nconc && !giveUp(); i++ {
		runConc(cw, rng, i)
	}
	for i := 0; i < *nrconc && !giveUp(); i++ {
		runRdsConc(cw, rng, i)
	}
	for i := 0; i < *ncold && !giveUp(); i++ {
		runCold(cw, rng, i)
	}
	for i := 0; i*50 < *nburst && !giveUp(); i++ {
		runBursts(cw, rng, i, 50)
	}
	cw.Close()
	fmt.Printf("mem_events=%d both_events=%d conc_events=%d\n", w.N(), bw.N(), cw.N())
}
