// X04 - neptune store/etcd WatchDir / Watcher against specs/etcdwatch.  The driver plays etcd (fake.go)
// and the consumer, one step at a time with global quiescence (internal/qx) after every step, and logs
// the action records EtcdWatch_Trace validates.  Plans come from TLC (EtcdWatch_Gen) and from a seeded
// generator with larger domains and long back-logs.  The driver follows the plan and the fake's own
// state only; steps that do not apply to what really happened are skipped (never logged).
package main

import (
	"context"
	"flag"
	"fmt"
	"math/rand"
	"reflect"
	"runtime"
	"strings"
	"sync"
	"time"
	"unsafe"

	"github.com/pinealctx/neptune/store/etcd"
	"github.com/pinealctx/neptune/ulog"
	clientv3 "go.etcd.io/etcd/client/v3"
	"go.etcd.io/etcd/api/v3/mvccpb"
	"go.uber.org/zap"

	"verif/harness/internal/qx"
	"verif/harness/internal/tr"
)

const pkgFrag = "github.com/pinealctx/neptune/store/etcd."

var (
	out   *tr.W
	logMu sync.Mutex
	x     *qx.Exec
)

func emit(a tr.E) {
	logMu.Lock()
	out.Emit(tr.E{"ev": "step", "a": a})
	logMu.Unlock()
}

func settle() {
	if err := x.Settle(); err != nil {
		tr.Fatal("x04: %v", err)
	}
}

// goroutines (ids) that are inside neptune's etcd package right now
func inPkg() map[string]bool {
	buf := make([]byte, 1<<20)
	for {
		n := runtime.Stack(buf, true)
		if n < len(buf) {
			buf = buf[:n]
			break
		}
		buf = make([]byte, 2*len(buf))
	}
	m := map[string]bool{}
	for _, blk := range strings.Split(string(buf), "\n\n") {
		if strings.Contains(blk, pkgFrag) {
			m[strings.SplitN(blk, "[", 2)[0]] = true
		}
	}
	return m
}

func newClient(f *fake) *etcd.Client {
	ec := clientv3.NewCtxClient(context.Background())
	ec.KV, ec.Watcher = f, f
	c := &etcd.Client{}
	v := reflect.ValueOf(c).Elem()
	set := func(name string, val reflect.Value) {
		fl := v.FieldByName(name)
		if !fl.IsValid() {
			tr.Fatal("x04: etcd.Client has no field %s", name)
		}
		reflect.NewAt(fl.Type(), unsafe.Pointer(fl.UnsafeAddr())).Elem().Set(val)
	}
	set("eCli", reflect.ValueOf(ec))
	set("root", reflect.ValueOf("/r"))
	return c
}

type op struct {
	Op  string `json:"op"`
	T   string `json:"t"`
	K   int    `json:"k"`
	V   int    `json:"v"`
	N   int    `json:"n"`
	Why string `json:"why"`
	Ok  bool   `json:"ok"`
	// init line
	Mode string `json:"mode"`
	Ign  bool   `json:"ign"`
}

type run struct {
	f        *fake
	mode     string
	ign      bool
	began    bool
	base     map[string]bool
	// dir
	retTaken bool
	ch       <-chan etcd.DirEvent
	cancel   context.CancelFunc
	pcancel  context.CancelFunc
	canceled bool
	// watcher
	w        *etcd.Watcher
	stopped  bool // Stop issued
	stopDone bool
	closed   bool // consumer saw the channel closed
	alt      int
}

func clamp(v int64) int {
	if v > 1<<30 {
		return 1 << 30
	}
	if v < -(1 << 30) {
		return -(1 << 30)
	}
	return int(v)
}

func evRec(e *clientv3.Event) tr.E {
	r := tr.E{"t": "other", "k": -1, "v": -1}
	if e == nil || e.Kv == nil {
		return r
	}
	var k, v int
	if n, _ := fmt.Sscanf(string(e.Kv.Key), "/r/d/k%d", &k); n == 1 && string(e.Kv.Key) == keyName(k) {
		r["k"] = k
	}
	switch e.Type {
	case mvccpb.PUT:
		r["t"] = "put"
		if n, _ := fmt.Sscanf(string(e.Kv.Value), "v%d", &v); n == 1 && string(e.Kv.Value) == valName(v) {
			r["v"] = v
		}
	case mvccpb.DELETE:
		r["t"], r["v"] = "del", 0
	}
	return r
}

type retVal struct {
	d      etcd.DirRet
	ch     <-chan etcd.DirEvent
	cancel context.CancelFunc
	pnc    string
}

func (r *run) afterStep() {
	settle()
	if r.mode == "dir" && r.began && !r.retTaken {
		if v, ok := x.Take(1); ok {
			r.retTaken = true
			rv := v.(retVal)
			if rv.pnc != "" {
				emit(tr.E{"op": "ret", "code": -1, "kvs": []tr.E{}, "rev": 0, "ch": false, "panic": rv.pnc})
				return
			}
			kvs := make([]tr.E, 0)
			for _, kv := range rv.d.KVS {
				e := evRec(&clientv3.Event{Type: mvccpb.PUT, Kv: kv})
				kvs = append(kvs, tr.E{"k": e["k"], "v": e["v"]})
			}
			r.ch, r.cancel = rv.ch, rv.cancel
			emit(tr.E{"op": "ret", "code": int(etcd.ErrCode(rv.d.Err)), "kvs": kvs, "rev": clamp(rv.d.Revision), "ch": rv.ch != nil})
			if rv.ch == nil {
				r.closed = true
			}
		}
	}
	if r.mode == "watcher" && r.stopped && !r.stopDone {
		if _, ok := x.Take(2); ok {
			r.stopDone, r.closed = true, true
			emit(tr.E{"op": "stopret"})
		}
	}
}

func (r *run) start() {
	r.began = true
	emit(tr.E{"op": "start"})
	cli := newClient(r.f)
	if r.mode == "dir" {
		pctx, pc := context.WithCancel(context.Background())
		r.pcancel = pc
		ign := r.ign
		x.Issue(1, func() (res interface{}) {
			defer func() {
				if p := recover(); p != nil {
					res = retVal{pnc: fmt.Sprint(p)}
				}
			}()
			d, ch, cancel := cli.WatchDir(pctx, "d", time.Hour, ign)
			return retVal{d: d, ch: ch, cancel: cancel}
		})
	} else {
		r.w = etcd.NewWatcher(cli, "d", time.Hour, 0)
		if r.ign {
			r.w.StartWatchDir()
		} else {
			r.w.StartWatchDirWhenExist()
		}
	}
	r.afterStep()
}

func (r *run) chanOf() <-chan etcd.DirEvent {
	if r.mode == "dir" {
		return r.ch
	}
	return r.w.DirChan()
}

// one receive at quiescence; returns what it saw
func (r *run) recv() string {
	var res tr.E
	kind := "item"
	select {
	case d, ok := <-r.chanOf():
		switch {
		case !ok:
			res, kind, r.closed = tr.E{"k": "closed"}, "closed", true
		case d.Err != nil:
			res, kind = tr.E{"k": "err", "code": int(etcd.ErrCode(d.Err))}, "err"
		default:
			evs := make([]tr.E, 0, len(d.Events))
			for _, e := range d.Events {
				evs = append(evs, evRec(e))
			}
			res = tr.E{"k": "item", "evs": evs, "rev": clamp(d.Revision)}
		}
	default:
		res, kind = tr.E{"k": "empty"}, "empty"
	}
	emit(tr.E{"op": "recv", "r": res})
	r.afterStep()
	return kind
}

func (r *run) canRecv() bool {
	return r.began && !r.closed && !r.stopped && (r.mode == "watcher" || (r.retTaken && r.ch != nil))
}

func (r *run) doCancel() {
	emit(tr.E{"op": "cancel"})
	r.canceled = true
	r.alt++
	if r.alt%2 == 0 && r.pcancel != nil {
		r.pcancel() // the parent context is the documented cancel controller as well
	} else {
		r.cancel()
	}
	r.afterStep()
}

func (r *run) doStop() {
	r.stopped = true
	w := r.w
	x.Issue(2, func() interface{} { w.Stop(); return "ret" })
	settle()
	if _, ok := x.Take(2); ok {
		r.stopDone, r.closed = true, true
		emit(tr.E{"op": "stop", "r": "ret"})
	} else {
		emit(tr.E{"op": "stop", "r": "blocked"})
	}
	r.afterStep()
}

func main() {
	plans := flag.String("plans", "", "directory of TLC plans")
	outp := flag.String("out", "x04.ndjson", "trace file")
	seed := flag.Int64("seed", 1, "seed")
	nhist := flag.Int("hist", 100, "seeded histories")
	flag.Parse()
	ulog.SetDefaultLogger(&ulog.Logger{Logger: zap.NewNop()})
	out = tr.Create(*outp)
	x = qx.New(2)
	x.Budget = 20 * time.Second
	n := 0
	if *plans != "" {
		for _, p := range listPlans(*plans) {
			mode, ign, ops := loadPlan(p)
			execute(mode, ign, ops, "plan")
			n++
		}
	}
	rng := rand.New(rand.NewSource(*seed))
	for i := 0; i < *nhist; i++ {
		style := []int{0, 0, 1, 1, 1, 2, 3, 3}[i%8]
		mode, ign, ops := genHistory(rng, style)
		execute(mode, ign, ops, fmt.Sprintf("hist%d", style))
		n++
	}
	out.Close()
	fmt.Printf("traces=%d events=%d\n", n, out.N())
}
