package main

import (
	"context"
	"fmt"
	"reflect"
	"unsafe"

	"github.com/pinealctx/neptune/store/etcd"
	clientv3 "go.etcd.io/etcd/client/v3"
)

func main() {
	ec := clientv3.NewCtxClient(context.Background())
	c := &etcd.Client{}
	v := reflect.ValueOf(c).Elem()
	f := v.FieldByName("eCli")
	reflect.NewAt(f.Type(), unsafe.Pointer(f.UnsafeAddr())).Elem().Set(reflect.ValueOf(ec))
	r := v.FieldByName("root")
	reflect.NewAt(r.Type(), unsafe.Pointer(r.UnsafeAddr())).Elem().SetString("/r")
	fmt.Println(c)
}
