package main

import (
	"bufio"
	"encoding/json"
	"math/rand"
	"os"
	"path/filepath"
	"sort"

	"verif/harness/internal/tr"
)

// apply one environment step of a plan if it applies to what really happened
func (r *run) apply(o op) {
	f := r.f
	switch o.Op {
	case "start":
		if !r.began {
			r.start()
		}
	case "write":
		if o.T == "del" && !f.present(o.K) {
			return
		}
		emit(tr.E{"op": "write", "t": o.T, "k": o.K, "v": o.V})
		f.write(hev{del: o.T == "del", k: o.K, v: o.V})
		r.afterStep()
	case "flush":
		p := f.pending()
		n := o.N
		if n > p {
			n = p
		}
		if n < 1 {
			return
		}
		emit(tr.E{"op": "flush", "n": n})
		f.flush(n)
		r.afterStep()
	case "flushall":
		for i := 0; i < 4096 && f.pending() > 0; i++ {
			r.apply(op{Op: "flush", N: 1})
		}
	case "kill":
		p := f.pending()
		if p < 0 || (o.Why == "compact" && p == 0) {
			return
		}
		emit(tr.E{"op": "kill", "why": o.Why})
		f.kill(o.Why)
		r.afterStep()
	case "serveget":
		if !f.getPending() {
			return
		}
		emit(tr.E{"op": "serveget", "ok": o.Ok})
		f.serveGet(o.Ok)
		r.afterStep()
	case "servewatch":
		if !f.watchPending() {
			return
		}
		emit(tr.E{"op": "servewatch"})
		f.serveWatch()
		r.afterStep()
	case "recv":
		if r.canRecv() {
			r.recv()
		}
	case "drain":
		for i := 0; i < 4096 && r.canRecv(); i++ {
			if k := r.recv(); k == "empty" || k == "closed" {
				break
			}
		}
	case "cancel":
		if r.mode == "dir" && r.retTaken && r.ch != nil && !r.canceled {
			r.doCancel()
		}
	case "stop":
		if r.mode == "watcher" && r.began && !r.stopped {
			r.doStop()
		}
	}
}

// shut everything down and report what is left
func (r *run) finish() {
	f := r.f
	if r.began && r.mode == "dir" {
		for i := 0; i < 4 && !r.retTaken; i++ { // the call is parked in the fake: answer it
			r.apply(op{Op: "serveget", Ok: false})
			r.apply(op{Op: "servewatch"})
		}
		if !r.retTaken {
			tr.Fatal("x04: WatchDir does not return although etcd answered")
		}
		r.apply(op{Op: "cancel"})
		for i := 0; i < 1<<16 && r.canRecv(); i++ {
			r.recv()
		}
	}
	if r.began && r.mode == "watcher" {
		r.apply(op{Op: "stop"})
		for i := 0; i < 4 && !r.stopDone && f.getPending(); i++ {
			r.apply(op{Op: "serveget", Ok: false})
		}
	}
	settle()
	leaked := 0
	for g := range inPkg() {
		if !r.base[g] {
			leaked++
		}
	}
	emit(tr.E{"op": "end", "leaked": leaked})
}

func execute(mode string, ign bool, ops []op, src string) {
	r := &run{f: &fake{emit: emit}, mode: mode, ign: ign}
	settle()
	r.base = inPkg()
	logMu.Lock()
	out.Emit(tr.E{"ev": "reset", "mode": mode, "ign": ign, "dev": []string{}, "src": src})
	logMu.Unlock()
	for _, o := range ops {
		if o.Op == "end" {
			break
		}
		r.apply(o)
	}
	r.finish()
}

func loadPlan(path string) (string, bool, []op) {
	fh, err := os.Open(path)
	if err != nil {
		tr.Fatal("x04: %v", err)
	}
	defer fh.Close()
	var ops []op
	sc := bufio.NewScanner(fh)
	sc.Buffer(make([]byte, 1<<20), 1<<24)
	for sc.Scan() {
		var o op
		if err := json.Unmarshal(sc.Bytes(), &o); err != nil {
			tr.Fatal("x04: plan %s: %v", path, err)
		}
		ops = append(ops, o)
	}
	if len(ops) == 0 || ops[0].Op != "init" {
		tr.Fatal("x04: plan %s has no init line", path)
	}
	return ops[0].Mode, ops[0].Ign, ops[1:]
}

// seeded histories: larger key/value domains, longer runs, back-logs the small TLC constants cannot
// reach.  Styles: 0 calm (single-event responses, watch registered right after the read, no deletes
// while no watch is up, consumer drains before stopping), 1 wild, 2 back-log then stop, 3 sessions
// lost and re-established with writes in the gaps (single-event responses, consumer keeps up).
func genHistory(rng *rand.Rand, style int) (string, bool, []op) {
	if style == 3 {
		return genReconnect(rng)
	}
	mode := []string{"dir", "watcher"}[rng.Intn(2)]
	if style == 2 {
		mode = "watcher"
	}
	ign := rng.Intn(3) > 0
	nk, nv := 1+rng.Intn(6), 1+rng.Intn(9)
	var ops []op
	put := func() op { return op{Op: "write", T: "put", K: 1 + rng.Intn(nk), V: 1 + rng.Intn(nv)} }
	del := func() op { return op{Op: "write", T: "del", K: 1 + rng.Intn(nk), V: 0} }
	for i := rng.Intn(4); i > 0; i-- {
		ops = append(ops, put())
	}
	if rng.Intn(4) == 0 {
		ops = append(ops, del())
	}
	ops = append(ops, op{Op: "start"})
	n := 10 + rng.Intn(40)
	up := false // the plan's own idea whether a watch is up (never read from the client)
	for i := 0; i < n; i++ {
		c := rng.Intn(100)
		switch {
		case c < 30:
			ops = append(ops, put())
		case c < 40:
			if style != 0 || up {
				ops = append(ops, del())
			}
		case c < 60:
			k := 1
			if style != 0 {
				k = 1 + rng.Intn(4)
			}
			if style == 0 { // everything written so far goes out one by one
				ops = append(ops, op{Op: "flushall"})
			} else {
				ops = append(ops, op{Op: "flush", N: k})
			}
		case c < 72:
			ok := rng.Intn(5) > 0
			ops = append(ops, op{Op: "serveget", Ok: ok})
			if style == 0 || rng.Intn(2) == 0 {
				ops = append(ops, op{Op: "servewatch"})
				up = ok
			}
		case c < 78:
			ops = append(ops, op{Op: "servewatch"})
			up = true
		case c < 84:
			if style == 0 {
				ops = append(ops, op{Op: "flushall"})
			}
			ops = append(ops, op{Op: "kill", Why: []string{"compact", "noleader", "closed"}[rng.Intn(3)]})
			up = false
		case c < 94:
			if style != 2 {
				ops = append(ops, op{Op: []string{"recv", "drain", "drain"}[rng.Intn(3)]})
			}
		case c < 96:
			if style == 1 {
				ops = append(ops, op{Op: "cancel"}, op{Op: "stop"})
			}
		}
	}
	if style == 0 {
		ops = append(ops, op{Op: "flushall"}, op{Op: "drain"})
	}
	if style == 2 { // a long back-log nobody reads, then Stop
		ops = append(ops, op{Op: "serveget", Ok: true}, op{Op: "servewatch"})
		for j := 12 + rng.Intn(20); j > 0; j-- {
			ops = append(ops, put(), op{Op: "flush", N: 1})
		}
	}
	return mode, ign, ops
}

func listPlans(dir string) []string {
	fs, _ := filepath.Glob(filepath.Join(dir, "*.ndjson"))
	sort.Slice(fs, func(i, j int) bool {
		if len(fs[i]) != len(fs[j]) {
			return len(fs[i]) < len(fs[j])
		}
		return fs[i] < fs[j]
	})
	return fs
}

func genReconnect(rng *rand.Rand) (string, bool, []op) {
	ign := rng.Intn(3) > 0
	nk, nv := 1+rng.Intn(4), 1+rng.Intn(3)
	var ops []op
	wr := func(pdel int) op {
		if rng.Intn(100) < pdel {
			return op{Op: "write", T: "del", K: 1 + rng.Intn(nk), V: 0}
		}
		return op{Op: "write", T: "put", K: 1 + rng.Intn(nk), V: 1 + rng.Intn(nv)}
	}
	for i := rng.Intn(4); i > 0; i-- {
		ops = append(ops, wr(10))
	}
	ops = append(ops, op{Op: "start"})
	for s := 1 + rng.Intn(3); s > 0; s-- {
		for i := rng.Intn(3); i > 0; i-- { // reads that fail before one succeeds
			if rng.Intn(3) == 0 {
				ops = append(ops, op{Op: "serveget", Ok: false})
			}
		}
		ops = append(ops, op{Op: "serveget", Ok: true}, op{Op: "servewatch"}, op{Op: "drain"})
		for i := rng.Intn(5); i > 0; i-- {
			ops = append(ops, wr(30))
			if rng.Intn(3) > 0 {
				ops = append(ops, op{Op: "flushall"})
			}
			if rng.Intn(2) == 0 {
				ops = append(ops, op{Op: "drain"})
			}
		}
		if rng.Intn(2) == 0 {
			ops = append(ops, op{Op: "flushall"}, op{Op: "drain"})
		}
		ops = append(ops, op{Op: "kill", Why: []string{"compact", "noleader", "closed"}[rng.Intn(3)]})
		if rng.Intn(2) == 0 {
			ops = append(ops, op{Op: "drain"})
		}
		for i := rng.Intn(4); i > 0; i-- { // the gap
			ops = append(ops, wr(50))
		}
	}
	ops = append(ops, op{Op: "serveget", Ok: true}, op{Op: "servewatch"}, op{Op: "drain"})
	for i := rng.Intn(3); i > 0; i-- {
		ops = append(ops, wr(30), op{Op: "flushall"}, op{Op: "drain"})
	}
	return "watcher", ign, ops
}
