package main

// A scripted etcd: one in-memory MVCC store (every write = one revision with one event, an empty
// store is at revision 1) behind the clientv3.KV and clientv3.Watcher interfaces.  Get and Watch
// calls of the client park inside the fake until the driver serves them, so the driver decides what
// happens between a read and the registration of the watch.  The fake answers what a real server
// answers to the request it was given (key range, start revision, keys-only) - it never looks at
// neptune's state.

import (
	"context"
	"fmt"
	"sort"
	"sync"

	"go.etcd.io/etcd/api/v3/etcdserverpb"
	"go.etcd.io/etcd/api/v3/mvccpb"
	"go.etcd.io/etcd/api/v3/v3rpc/rpctypes"
	clientv3 "go.etcd.io/etcd/client/v3"

	"verif/harness/internal/tr"
)

type hev struct {
	del  bool
	k, v int
}

type getReq struct {
	key, end string
	keysOnly bool
	ans      chan bool // true: answer with the store's content, false: fail
}

type watchReq struct {
	key, end string
	rev      int64
	ans      chan struct{}
}

type fwatch struct {
	key, end string
	ch       chan clientv3.WatchResponse
	sent     int // hist[:sent] has been sent on (or lies before the start of) this watch
	live     bool
	closed   bool
}

type fake struct {
	mu      sync.Mutex
	emit    func(a tr.E)
	hist    []hev
	compact int64
	gp      *getReq
	wp      *watchReq
	cur     *fwatch
	failAlt int
	clientv3.KV      // nil: any other KV method panics (neptune's watch code uses Get only)
	clientv3.Watcher // nil
}

func keyName(k int) string { return fmt.Sprintf("/r/d/k%d", k) }
func valName(v int) string { return fmt.Sprintf("v%d", v) }

func (f *fake) rev() int64 { return int64(len(f.hist)) + 1 }

func inRange(k, key, end string) bool {
	if end == "" {
		return k == key
	}
	return k >= key && (end == "\x00" || k < end)
}

// content after hist[:n], with the index of the last write of each key
func (f *fake) content(n int) (map[int]int, map[int]int, map[int]int) {
	val, mod, crt := map[int]int{}, map[int]int{}, map[int]int{}
	for i := 0; i < n; i++ {
		e := f.hist[i]
		if e.del {
			delete(val, e.k)
			delete(mod, e.k)
			delete(crt, e.k)
			continue
		}
		if _, ok := val[e.k]; !ok {
			crt[e.k] = i + 2
		}
		val[e.k] = e.v
		mod[e.k] = i + 2
	}
	return val, mod, crt
}

// ---- clientv3.KV (Get only)

func (f *fake) Get(ctx context.Context, key string, opts ...clientv3.OpOption) (*clientv3.GetResponse, error) {
	op := clientv3.OpGet(key, opts...)
	rq := &getReq{key: string(op.KeyBytes()), end: string(op.RangeBytes()), keysOnly: op.IsKeysOnly(), ans: make(chan bool, 1)}
	f.mu.Lock()
	if f.gp != nil {
		f.mu.Unlock()
		tr.Fatal("fake: second Get while one is pending")
	}
	f.gp = rq
	f.emit(tr.E{"op": "getcall"})
	f.mu.Unlock()
	var ok bool
	select {
	case ok = <-rq.ans:
	case <-ctx.Done():
		f.mu.Lock()
		if f.gp == rq { // the client gave up: for the store this is a read that failed
			f.gp = nil
			f.emit(tr.E{"op": "serveget", "ok": false})
			f.mu.Unlock()
			return nil, ctx.Err()
		}
		f.mu.Unlock()
		ok = <-rq.ans
	}
	f.mu.Lock()
	defer f.mu.Unlock()
	if !ok {
		f.failAlt++
		if f.failAlt%2 == 0 {
			return nil, context.DeadlineExceeded
		}
		return nil, rpctypes.ErrNoLeader
	}
	val, mod, crt := f.content(len(f.hist))
	var ks []int
	for k := range val {
		if inRange(keyName(k), rq.key, rq.end) {
			ks = append(ks, k)
		}
	}
	sort.Slice(ks, func(i, j int) bool { return keyName(ks[i]) < keyName(ks[j]) })
	rsp := &clientv3.GetResponse{Header: &etcdserverpb.ResponseHeader{Revision: f.rev()}}
	for _, k := range ks {
		kv := &mvccpb.KeyValue{Key: []byte(keyName(k)), ModRevision: int64(mod[k]), CreateRevision: int64(crt[k]), Version: 1}
		if !rq.keysOnly {
			kv.Value = []byte(valName(val[k]))
		}
		rsp.Kvs = append(rsp.Kvs, kv)
	}
	rsp.Count = int64(len(rsp.Kvs))
	return rsp, nil
}

// ---- clientv3.Watcher

func closedChan() clientv3.WatchChan {
	c := make(chan clientv3.WatchResponse)
	close(c)
	return c
}

func (f *fake) Watch(ctx context.Context, key string, opts ...clientv3.OpOption) clientv3.WatchChan {
	op := clientv3.OpGet(key, opts...)
	rq := &watchReq{key: string(op.KeyBytes()), end: string(op.RangeBytes()), rev: op.Rev(), ans: make(chan struct{}, 1)}
	lrev := rq.rev
	if lrev > 1<<30 || lrev < 0 {
		lrev = 1 << 30
	}
	f.mu.Lock()
	if f.wp != nil {
		f.mu.Unlock()
		tr.Fatal("fake: second Watch while one is pending")
	}
	f.wp = rq
	f.emit(tr.E{"op": "watchcall", "rev": int(lrev)})
	f.mu.Unlock()
	select {
	case <-rq.ans:
	case <-ctx.Done(): // like the real client: a closed channel
		f.mu.Lock()
		if f.wp == rq {
			f.wp = nil
			f.mu.Unlock()
			return closedChan()
		}
		f.mu.Unlock()
		<-rq.ans
	}
	f.mu.Lock()
	defer f.mu.Unlock()
	w := &fwatch{key: rq.key, end: rq.end, ch: make(chan clientv3.WatchResponse, 1<<14), live: true}
	if rq.rev == 0 {
		w.sent = len(f.hist)
	} else {
		s := rq.rev
		if s < 2 {
			s = 2
		}
		w.sent = int(s - 2)
	}
	f.cur = w
	if rq.rev != 0 && rq.rev < f.compact {
		w.ch <- clientv3.WatchResponse{Header: etcdserverpb.ResponseHeader{Revision: f.rev()}, Canceled: true, CompactRevision: f.compact}
		f.shut(w)
		return w.ch
	}
	go func() { // the real client closes the channel when the caller's context ends
		<-ctx.Done()
		f.mu.Lock()
		f.shut(w)
		f.mu.Unlock()
	}()
	return w.ch
}

func (f *fake) shut(w *fwatch) {
	w.live = false
	if !w.closed {
		w.closed = true
		close(w.ch)
	}
}

func (f *fake) RequestProgress(ctx context.Context) error { return nil }
func (f *fake) Close() error                              { return nil }

// ---- driver side (called with no lock held)

func (f *fake) write(e hev) {
	f.mu.Lock()
	f.hist = append(f.hist, e)
	f.mu.Unlock()
}

func (f *fake) present(k int) bool {
	f.mu.Lock()
	defer f.mu.Unlock()
	val, _, _ := f.content(len(f.hist))
	_, ok := val[k]
	return ok
}

// pending = events written but not yet sent on the live watch (-1: no live watch)
func (f *fake) pending() int {
	f.mu.Lock()
	defer f.mu.Unlock()
	if f.cur == nil || !f.cur.live {
		return -1
	}
	if f.cur.sent > len(f.hist) {
		return 0
	}
	return len(f.hist) - f.cur.sent
}

func (f *fake) flush(n int) {
	f.mu.Lock()
	defer f.mu.Unlock()
	w := f.cur
	rsp := clientv3.WatchResponse{Header: etcdserverpb.ResponseHeader{Revision: f.rev()}}
	for i := w.sent; i < w.sent+n; i++ {
		e := f.hist[i]
		if !inRange(keyName(e.k), w.key, w.end) {
			continue
		}
		ev := &clientv3.Event{Type: mvccpb.PUT, Kv: &mvccpb.KeyValue{Key: []byte(keyName(e.k)), ModRevision: int64(i + 2)}}
		if e.del {
			ev.Type = mvccpb.DELETE
		} else {
			ev.Kv.Value = []byte(valName(e.v))
		}
		rsp.Events = append(rsp.Events, ev)
	}
	w.sent += n
	if len(rsp.Events) == 0 {
		return
	}
	select {
	case w.ch <- rsp:
	default:
		tr.Fatal("fake: watch channel full")
	}
}

func (f *fake) kill(why string) {
	f.mu.Lock()
	defer f.mu.Unlock()
	w := f.cur
	h := etcdserverpb.ResponseHeader{Revision: f.rev()}
	switch why {
	case "compact":
		f.compact = f.rev()
		w.ch <- clientv3.WatchResponse{Header: h, Canceled: true, CompactRevision: f.compact}
	case "noleader":
		w.ch <- clientv3.WatchResponse{Header: h, Canceled: true}
	}
	f.shut(w)
}

func (f *fake) serveGet(ok bool) bool {
	f.mu.Lock()
	rq := f.gp
	f.gp = nil
	f.mu.Unlock()
	if rq == nil {
		return false
	}
	rq.ans <- ok
	return true
}

func (f *fake) serveWatch() bool {
	f.mu.Lock()
	rq := f.wp
	f.wp = nil
	f.mu.Unlock()
	if rq == nil {
		return false
	}
	rq.ans <- struct{}{}
	return true
}

func (f *fake) getPending() bool   { f.mu.Lock(); defer f.mu.Unlock(); return f.gp != nil }
func (f *fake) watchPending() bool { f.mu.Lock(); defer f.mu.Unlock(); return f.wp != nil }
