// x03: timex (day arithmetic, LocalDiff / LocalTime, the Stop/Reset contract of timex.Timer) and
// randx (range of every generator, Shuffle) - specification growth beyond the 20 given properties.
//
//	timer.go  timex.Timer driven step by step (plans from specs/timex/Timex_Gen + seeded histories
//	          with microsecond durations): a controller goroutine and a receiver goroutine under
//	          internal/qx; every call, every tick (with its time value) and len(t.C) are logged.
//	          Validation: Timex_Trace.tla.
//	days.go   boundary-biased instants x deltas x locations through DayBegin / DayDeltaBegin /
//	          DayDeltaBegins / DayDelta / Today*; LocalDiff and LocalTime in child processes started
//	          under several TZ values.  Validation: Days_Trace.tla.
//	randx.go  Rand*Between* on boundary pairs, small-range coverage, bit coverage of the typed
//	          generators, Shuffle on a recording Swapper (package's own random functions, and a
//	          scripted one that enumerates every branch).  Validation: Randx_Trace.tla.
package main

import (
	"flag"
	"fmt"
	"math/rand"
	"os"
	_ "time/tzdata"

	"verif/harness/internal/tr"
)

var (
	fPlans  = flag.String("plans", "", "directory of Timex_Gen plans")
	fTimer  = flag.String("timer", "", "trace file: timer")
	fDays   = flag.String("days", "", "trace file: day arithmetic")
	fCli    = flag.String("cli", "", "trace file: LocalDiff / LocalTime per zone")
	fRand   = flag.String("rand", "", "trace file: randx")
	fWide   = flag.String("wide", "", "trace file: Rand*Between* on ranges wider than 2^63-1 values")
	fSeed   = flag.Int64("seed", 1, "seed")
	fUnit   = flag.Int("unit", 1500, "microseconds per plan time unit")
	fSlack  = flag.Int("slack", 2000000, "microseconds an armed timer may be late before it counts as lost")
	fNHist  = flag.Int("nhist", 150, "seeded timer histories")
	fMaxPl  = flag.Int("maxplans", 100000, "at most that many plans")
	fNDays  = flag.Int("ndays", 300, "instants per location")
	fNPairs = flag.Int("npairs", 200, "random (min,max) pairs per function")
	fNShuf  = flag.Int("nshuf", 60, "random shuffles per random function")
	fCensus = flag.Int("census", 5, "largest length whose shuffles are enumerated completely")
	fChild  = flag.String("child", "", "internal: run as the per-zone child process")
)

func main() {
	flag.Parse()
	if *fChild != "" {
		childMain(*fChild)
		return
	}
	rng := rand.New(rand.NewSource(*fSeed))
	if *fTimer != "" {
		w := tr.Create(*fTimer)
		n, ticks, parked := runTimer(w, rng)
		w.Close()
		fmt.Printf("timer_traces=%d ticks_observed=%d traces_ending_parked=%d\n", n, ticks, parked)
	}
	if *fDays != "" {
		w := tr.Create(*fDays)
		w.NoSync = true
		n := runDays(w, rng)
		w.Close()
		fmt.Printf("day_events=%d\n", n)
	}
	if *fCli != "" {
		w := tr.Create(*fCli)
		n := runCli(w)
		w.Close()
		fmt.Printf("cli_events=%d\n", n)
	}
	if *fRand != "" {
		w := tr.Create(*fRand)
		var ww *tr.W
		if *fWide != "" {
			ww = tr.Create(*fWide)
		}
		n := runRand(w, ww, rng)
		w.Close()
		if ww != nil {
			ww.Close()
		}
		fmt.Printf("rand_events=%d\n", n)
	}
	os.Exit(0)
}
