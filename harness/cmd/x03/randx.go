package main

import (
	"fmt"
	"math"
	"math/rand"
	"sort"

	"github.com/pinealctx/neptune/randx"

	"verif/harness/internal/tr"
)

// biased limbs: value + 2^63, most significant limb first (signed order = lexicographic order)
func bl(x int) []int { return tr.Limbs(uint64(x) ^ (1 << 63)) }

type betweenFn struct {
	id int
	f  func(int, int) int
}

var betweenFns = []betweenFn{{1, randx.RandBetween}, {2, randx.SimpleRandBetween}, {3, randx.RandBetweenSecure}}

// isWide: the range holds more than MaxInt values (max-min+1 is not an int).
func isWide(min, max int) bool {
	return min <= max && uint64(max)-uint64(min) >= uint64(math.MaxInt)
}

func between(w *tr.W, fn betweenFn, min, max int, log bool) (v int, ok bool) {
	r := tr.E{"kind": "val", "v": bl(0)}
	func() {
		defer func() {
			if p := recover(); p != nil {
				r = tr.E{"kind": "panic", "v": bl(0), "msg": fmt.Sprint(p)}
			}
		}()
		v = fn.f(min, max)
		r["v"] = bl(v)
		ok = true
	}()
	if log || !ok {
		w.Emit(tr.E{"ev": "between", "a": tr.E{"fn": fn.id, "min": bl(min), "max": bl(max)}, "r": r})
	}
	return
}

func runRand(w, ww *tr.W, rng *rand.Rand) int {
	const MaxI, MinI = math.MaxInt, math.MinInt
	// ---- ranges
	w.Emit(tr.E{"ev": "reset", "kind": "range", "n": 0})
	pairs := [][2]int{{0, 9}, {1, 10}, {-4, 5}, {0, 0}, {7, 7}, {-1, -1}, {MinI, MinI}, {MaxI, MaxI}, {MinI, MinI + 3},
		{MaxI - 3, MaxI}, {-1, 0}, {0, 1}, {1, MaxI}, {MinI, -2}, {MinI + 1, -1}, {-(1 << 62), 1<<62 - 2}, {0, MaxI - 1},
		{-1 << 31, 1<<31 - 1}, {0, 1 << 32}, {-1 << 32, 0},
		// min > max: must panic
		{1, 0}, {0, -1}, {MaxI, MinI}, {5, -5}, {MinI + 1, MinI}}
	for i := 0; i < *fNPairs; i++ {
		var a, b int
		switch rng.Intn(4) {
		case 0:
			a, b = int(rng.Uint64()), int(rng.Uint64())
		case 1:
			a = int(rng.Uint64())
			b = a + rng.Intn(6) - 1 // may wrap: then it is a min > max pair
		case 2:
			a = rng.Intn(2001) - 1000
			b = a + rng.Intn(50)
		default:
			a = int(rng.Uint64() >> uint(rng.Intn(64)))
			b = a - rng.Intn(1<<20) + rng.Intn(1<<21)
		}
		pairs = append(pairs, [2]int{a, b})
	}
	for _, fn := range betweenFns {
		for _, p := range pairs {
			if isWide(p[0], p[1]) {
				continue
			}
			for k := 0; k < 3; k++ {
				between(w, fn, p[0], p[1], true)
			}
		}
	}
	// ---- every value of a small range occurs
	for _, fn := range betweenFns {
		for _, min := range []int{0, -1, -3, MinI, MaxI - 3, int(rng.Uint64())>>1 - 5} {
			for span := 1; span <= 3; span++ {
				seen := map[int]bool{}
				for k := 0; k < 400; k++ {
					v, ok := between(w, fn, min, min+span, k < 10)
					if ok {
						off := uint64(v) - uint64(min)
						if off > 9999 {
							off = 9999
						}
						seen[int(off)] = true
					}
				}
				l := []int{}
				for o := range seen {
					l = append(l, o)
				}
				sort.Ints(l)
				w.Emit(tr.E{"ev": "hits", "a": tr.E{"fn": fn.id, "min": bl(min), "max": bl(min + span), "span": span}, "seen": l})
			}
		}
	}
	// ---- typed generators use their whole width
	type gen struct {
		name string
		w    int
		f    func() uint64
	}
	gens := []gen{
		{"int", 64, func() uint64 { return uint64(randx.RandInt()) }},
		{"uint", 64, func() uint64 { return uint64(randx.RandUint()) }},
		{"int64", 64, func() uint64 { return uint64(randx.RandInt64()) }},
		{"uint64", 64, func() uint64 { return randx.RandUint64() }},
		{"int32", 32, func() uint64 { return uint64(uint32(randx.RandInt32())) }},
		{"uint32", 32, func() uint64 { return uint64(randx.RandUint32()) }},
		{"ints", 64, func() uint64 { return uint64(randx.RandIntSecure()) }},
		{"uints", 64, func() uint64 { return uint64(randx.RandUintSecure()) }},
		{"int64s", 64, func() uint64 { return uint64(randx.RandInt64Secure()) }},
		{"uint64s", 64, func() uint64 { return randx.RandUint64Secure() }},
		{"int32s", 32, func() uint64 { return uint64(uint32(randx.RandInt32Secure())) }},
		{"uint32s", 32, func() uint64 { return uint64(randx.RandUint32Secure()) }},
	}
	for _, g := range gens {
		or, and := uint64(0), ^uint64(0)
		for k := 0; k < 300; k++ {
			v := g.f()
			or |= v
			and &= v
		}
		w.Emit(tr.E{"ev": "bits", "fn": g.name, "or": tr.Bits64(or)[64-g.w:], "and": tr.Bits64(and)[64-g.w:]})
	}
	// ---- ranges of more than MaxInt values: one trace per function (kept apart, see known finding)
	if ww != nil {
		wide := [][2]int{{MinI, MaxI}, {0, MaxI}, {MinI, 0}, {-1, MaxI - 1}, {-(1 << 62), 1 << 62}}
		for _, fn := range betweenFns {
			ww.Emit(tr.E{"ev": "reset", "kind": "wide", "n": 0})
			for _, p := range wide {
				between(ww, fn, p[0], p[1], true)
			}
		}
	}
	runShuffles(w, rng)
	return w.N()
}

// recSwap records what Shuffle does to it; an out-of-range Swap is recorded and not performed.
type recSwap struct {
	data  []int
	swaps [][]int
}

func (s *recSwap) Len() int { return len(s.data) }
func (s *recSwap) Swap(i, j int) {
	s.swaps = append(s.swaps, []int{i, j})
	if i >= 0 && j >= 0 && i < len(s.data) && j < len(s.data) {
		s.data[i], s.data[j] = s.data[j], s.data[i]
	}
}

func oneShuffle(w *tr.W, in []int, asks *[][]int, census bool) {
	s := &recSwap{data: append([]int{}, in...), swaps: [][]int{}}
	r := "ok"
	func() {
		defer func() {
			if p := recover(); p != nil {
				r = "panic: " + fmt.Sprint(p)
			}
		}()
		randx.Shuffle(s)
	}()
	w.Emit(tr.E{"ev": "shuffle", "n": len(in), "in": in, "asks": *asks, "swaps": s.swaps, "out": s.data, "r": r,
		"census": census})
}

func runShuffles(w *tr.W, rng *rand.Rand) {
	defer randx.SetShuffleRand(randx.RandBetweenSecure)
	noAsks := [][]int{}
	// the package's own random functions
	w.Emit(tr.E{"ev": "reset", "kind": "shuffle", "n": 0})
	for _, f := range []func(int, int) int{randx.RandBetweenSecure, randx.RandBetween, randx.SimpleRandBetween} {
		randx.SetShuffleRand(f)
		for i := 0; i < *fNShuf; i++ {
			n := []int{0, 1, 2, 3, 5, 8, 13, 40}[rng.Intn(8)]
			if rng.Intn(3) == 0 {
				n = rng.Intn(30)
			}
			in := make([]int, n)
			for j := range in {
				in[j] = rng.Intn(n/2 + 2) // duplicates on purpose
			}
			oneShuffle(w, in, &noAsks, false)
		}
	}
	// a scripted random function answers every request from a script; the scripts enumerate the whole
	// tree of answers depth-first, whatever the algorithm asks for
	for n := 0; n <= *fCensus; n++ {
		w.Emit(tr.E{"ev": "reset", "kind": "census", "n": n})
		in := make([]int, n)
		for j := range in {
			in[j] = j + 1
		}
		script := []int{}
		for leaves := 0; ; leaves++ {
			asks := [][]int{}
			k := 0
			randx.SetShuffleRand(func(min, max int) int {
				ans := min
				if k < len(script) {
					ans = script[k]
				}
				small := func(x int) int { // keep the log TLC-safe whatever is asked
					if x > 1<<20 {
						return 1 << 20
					}
					if x < -(1 << 20) {
						return -(1 << 20)
					}
					return x
				}
				asks = append(asks, []int{small(min), small(max), small(ans)})
				k++
				return ans
			})
			oneShuffle(w, in, &asks, true)
			// next script: bump the last answer that has a successor
			i := len(asks) - 1
			for i >= 0 && asks[i][2] >= asks[i][1] {
				i--
			}
			if i < 0 || leaves > 50000 {
				break
			}
			script = script[:0]
			for j := 0; j < i; j++ {
				script = append(script, asks[j][2])
			}
			script = append(script, asks[i][2]+1)
		}
		w.Emit(tr.E{"ev": "census"})
	}
}
