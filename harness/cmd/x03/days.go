package main

import (
	"encoding/json"
	"fmt"
	"math/rand"
	"os"
	"os/exec"
	"time"

	"github.com/pinealctx/neptune/timex"
	"github.com/urfave/cli/v2"

	"verif/harness/internal/tr"
)

type zoneT struct {
	loc   *time.Location
	off   int  // offset of a zone that never changes it (within [y0, y1])
	fixed bool // one offset for ever (time.FixedZone / UTC)
	dst   bool // daylight-saving zone whose midnights all exist: calendar fields only, no DayDelta
	y0    int  // years in which `off` is the zone's only offset
	y1    int
}

func mustLoad(name string) *time.Location {
	l, err := time.LoadLocation(name)
	if err != nil {
		tr.Fatal("zone %s: %v", name, err)
	}
	return l
}

func zones() []zoneT {
	return []zoneT{
		{loc: time.UTC, off: 0, fixed: true},
		{loc: mustLoad("Asia/Shanghai"), off: 8 * 3600, y0: 1995, y1: 2400},
		{loc: time.FixedZone("CST", 8*3600), off: 8 * 3600, fixed: true},
		{loc: time.FixedZone("X-0930", -(9*3600 + 1800)), off: -(9*3600 + 1800), fixed: true},
		{loc: time.FixedZone("X+1400", 14*3600), off: 14 * 3600, fixed: true},
		{loc: time.FixedZone("X+0545", 5*3600+2700), off: 5*3600 + 2700, fixed: true},
		{loc: time.FixedZone("X-1200", -12*3600), off: -12 * 3600, fixed: true},
		{loc: mustLoad("Asia/Kolkata"), off: 19800, y0: 1950, y1: 2400},
		{loc: mustLoad("America/New_York"), dst: true, y0: 1970, y1: 2036},
		{loc: mustLoad("Europe/Berlin"), dst: true, y0: 1981, y1: 2036},
	}
}

func floorDiv(a, b int64) (q, r int64) {
	q, r = a/b, a%b
	if r < 0 {
		q--
		r += b
	}
	return
}

func fields(t time.Time) tr.E {
	y, m, d := t.Date()
	hh, mm, ss := t.Clock()
	return tr.E{"y": y, "m": int(m), "d": d, "hh": hh, "mm": mm, "ss": ss, "ns": t.Nanosecond()}
}

// reply: calendar fields in the result's own location, the instant as (epoch day, second of day).
func reply(t time.Time) tr.E {
	ed, sod := floorDiv(t.Unix(), 86400)
	return tr.E{"f": fields(t), "ed": int(ed), "sod": int(sod), "loc": t.Location().String()}
}

var yearsOfInterest = []int{1, 4, 100, 400, 1582, 1600, 1899, 1900, 1969, 1970, 1999, 2000, 2023, 2024, 2038, 2099, 2100,
	2262, 2400, 9999}
var deltasOfInterest = []int{0, 1, -1, 2, -2, 7, -7, 28, 29, 30, 31, -28, -29, -30, -31, 59, 60, -59, -60, 365, 366, -365, -366,
	1461, -1461, 36524, 36525, -36524, -36525, 146097, -146097}

func pickInstant(rng *rand.Rand, z zoneT) time.Time {
	var y int
	if z.y1 != 0 {
		y = z.y0 + rng.Intn(z.y1-z.y0+1)
		if rng.Intn(3) == 0 {
			c := []int{1996, 2000, 2023, 2024, 2028, 2032, 2036}
			y = c[rng.Intn(len(c))]
		}
	} else if rng.Intn(2) == 0 {
		y = yearsOfInterest[rng.Intn(len(yearsOfInterest))]
	} else {
		y = 1 + rng.Intn(9999)
	}
	m := 1 + rng.Intn(12)
	d := 1 + rng.Intn(28)
	switch rng.Intn(6) {
	case 0:
		m, d = 1, 1
	case 1:
		m, d = 12, 31
	case 2:
		m, d = 2, 28+rng.Intn(2) // 29 Feb of a common year is 1 Mar: time.Date normalises, the log has the reading
	case 3:
		m, d = 3, 1
	case 4:
		d = 28 + rng.Intn(4)
	}
	hh, mm, ss, ns := rng.Intn(24), rng.Intn(60), rng.Intn(60), rng.Intn(1000000000)
	switch rng.Intn(5) {
	case 0:
		hh, mm, ss, ns = 0, 0, 0, 0
	case 1:
		hh, mm, ss, ns = 23, 59, 59, 999999999
	case 2:
		hh, mm, ss, ns = 0, 0, 0, 1
	}
	if z.dst && hh >= 1 && hh <= 3 {
		hh = 12 // keep clear of the transition hours of daylight-saving zones
	}
	return time.Date(y, time.Month(m), d, hh, mm, ss, ns, z.loc)
}

func pickDelta(rng *rand.Rand, z zoneT) int {
	if z.y1 != 0 {
		c := []int{0, 1, -1, 7, -7, 28, 29, 30, 31, -31, 59, 60, -60, 365, 366, -365, -366}
		if rng.Intn(3) == 0 {
			return rng.Intn(1201) - 600
		}
		return c[rng.Intn(len(c))]
	}
	switch rng.Intn(4) {
	case 0:
		return rng.Intn(2000001) - 1000000
	case 1:
		return rng.Intn(801) - 400
	}
	return deltasOfInterest[rng.Intn(len(deltasOfInterest))]
}

// guarded runs f; a panic inside the code under test becomes an event no action of the spec explains.
func guarded(w *tr.W, op string, f func()) (ok bool) {
	defer func() {
		if p := recover(); p != nil {
			w.Emit(tr.E{"ev": "panic", "op": op, "msg": fmt.Sprint(p)})
			ok = false
		}
	}()
	f()
	return true
}

func runDays(w *tr.W, rng *rand.Rand) int {
	for _, z := range zones() {
		w.Emit(tr.E{"ev": "reset", "zone": z.loc.String()})
		// `strict`: the instant is demanded too - the location has the single offset z.off for this input
		for i := 0; i < *fNDays; i++ {
			t := pickInstant(rng, z)
			n := pickDelta(rng, z)
			strict := z.fixed || (!z.dst && z.y1 != 0)
			a := fields(t)
			a["n"], a["loc"], a["fixed"], a["off"] = n, z.loc.String(), strict, z.off
			nd := rng.Intn(5)
			if rng.Intn(4) == 0 {
				nd = 0
			}
			ds := make([]int, nd)
			for j := range ds {
				ds[j] = pickDelta(rng, z)
			}
			a["deltas"] = ds
			ops := []string{"begin", "dbegin", "begins", "delta"}
			if z.dst {
				ops = ops[:3]
			}
			a["op"] = ops[rng.Intn(len(ops))]
			guarded(w, a["op"].(string), func() {
				var r tr.E
				switch a["op"] {
				case "begin":
					r = reply(timex.DayBegin(t))
				case "dbegin":
					r = reply(timex.DayDeltaBegin(t, n))
				case "delta":
					r = reply(timex.DayDelta(t, n))
				case "begins":
					res := timex.DayDeltaBegins(t, ds...)
					l := make([]tr.E, len(res))
					for j := range res {
						l[j] = reply(res[j])
					}
					r = tr.E{"list": l}
				}
				w.Emit(tr.E{"ev": "day", "a": a, "r": r})
			})
		}
	}
	// the Today* forms: the civil date of the clock just before and just after brackets the call
	w.Emit(tr.E{"ev": "reset", "zone": "Local/today"})
	civ := func(t time.Time) tr.E { y, m, d := t.Date(); return tr.E{"y": y, "m": int(m), "d": d} }
	for i := 0; i < 40; i++ {
		n := pickDelta(rng, zoneT{y1: 1})
		ds := []int{pickDelta(rng, zoneT{y1: 1}), -n, 0}[:rng.Intn(4)]
		kind := []string{"begin", "dbegin", "begins"}[i%3]
		a := tr.E{"op": "today", "kind": kind, "n": n, "deltas": append([]int{}, ds...), "loc": time.Local.String(),
			"fixed": false, "off": 0}
		guarded(w, "today", func() {
			a["c1"] = civ(time.Now())
			var r tr.E
			switch kind {
			case "begin":
				r = reply(timex.TodayBegin())
			case "dbegin":
				r = reply(timex.TodayDeltaBegin(n))
			case "begins":
				res := timex.TodayDeltaDayBegins(ds...)
				l := make([]tr.E, len(res))
				for j := range res {
					l[j] = reply(res[j])
				}
				r = tr.E{"list": l}
			}
			a["c2"] = civ(time.Now())
			w.Emit(tr.E{"ev": "today", "a": a, "r": r})
		})
	}
	return w.N()
}

// ---------------------------------------------------------------- LocalDiff / LocalTime per zone

type cliZone struct {
	name string
	off  int
}

// zones without daylight saving, so that the offset at process start is the offset of every text
var cliZones = []cliZone{{"UTC", 0}, {"Asia/Shanghai", 28800}, {"America/Phoenix", -25200}}

var cliTexts = []string{"2021-11-01T00:00:00", "2024-02-29T23:59:59", "2000-01-01T07:30:00", "2026-12-31T16:00:01"}

type childOut struct {
	Diff int    `json:"diff"`
	Res  []tr.E `json:"res"`
}

// childMain runs in a process started with TZ=<zone>: LocalDiff() and LocalTime of every text.
func childMain(zone string) {
	out := childOut{Diff: int(timex.LocalDiff() / time.Second), Res: []tr.E{}}
	for _, text := range cliTexts {
		app := &cli.App{
			Flags: []cli.Flag{&cli.TimestampFlag{Name: "at", Layout: "2006-01-02T15:04:05"}},
			Action: func(c *cli.Context) error {
				t := timex.LocalTime(c, "at")
				if t == nil {
					return fmt.Errorf("LocalTime returned nil for %s", text)
				}
				out.Res = append(out.Res, reply(*t))
				return nil
			},
		}
		if err := app.Run([]string{"x03", "--at", text}); err != nil {
			fmt.Fprintf(os.Stderr, "HARNESS-ERROR: child %s: %v\n", zone, err)
			os.Exit(2)
		}
	}
	json.NewEncoder(os.Stdout).Encode(out)
}

func runCli(w *tr.W) int {
	for _, z := range cliZones {
		cmd := exec.Command(os.Args[0], "-child", z.name)
		cmd.Env = append(os.Environ(), "TZ="+z.name)
		cmd.Stderr = os.Stderr
		bs, err := cmd.Output()
		if err != nil {
			tr.Fatal("child %s: %v", z.name, err)
		}
		var out childOut
		if err := json.Unmarshal(bs, &out); err != nil {
			tr.Fatal("child %s: %v (%s)", z.name, err, bs)
		}
		// away from UTC one trace per text: a rejected LocalTime must not hide the others
		for i, text := range cliTexts {
			if z.off != 0 && i >= 2 {
				break
			}
			if z.off != 0 || i == 0 {
				w.Emit(tr.E{"ev": "reset", "zone": z.name})
				w.Emit(tr.E{"ev": "local", "off": z.off, "diff": out.Diff})
			}
			t, err := time.Parse("2006-01-02T15:04:05", text)
			if err != nil {
				tr.Fatal("%v", err)
			}
			a := fields(t)
			a["off"], a["zone"] = z.off, z.name
			w.Emit(tr.E{"ev": "clitime", "a": a, "r": fixNums(out.Res[i])})
		}
	}
	return w.N()
}

// fixNums: numbers decoded from the child's JSON are float64; the trace wants ints.
func fixNums(v interface{}) interface{} {
	switch x := v.(type) {
	case map[string]interface{}:
		m := tr.E{}
		for k, e := range x {
			m[k] = fixNums(e)
		}
		return m
	case tr.E:
		return fixNums(map[string]interface{}(x))
	case []interface{}:
		l := make([]interface{}, len(x))
		for i := range x {
			l[i] = fixNums(x[i])
		}
		return l
	case float64:
		return int(x)
	}
	return v
}
