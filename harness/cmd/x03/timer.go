package main

import (
	"bufio"
	"encoding/json"
	"math/rand"
	"os"
	"path/filepath"
	"sort"
	"time"

	"github.com/pinealctx/neptune/timex"

	"verif/harness/internal/qx"
	"verif/harness/internal/tr"
)

// tstep is one step of a timer schedule; D and Dt are microseconds.
type tstep struct {
	Op string
	D  int // reset / new: duration
	Dt int // adv: how long to let time pass
	// adv with Edge: let time pass until Jit microseconds after (before) the deadline of the current arming,
	// so that the next call meets the runtime while it fires
	Edge bool
	Jit  int
}

type planLine struct {
	Op string `json:"op"`
	T  int    `json:"t"`
	D  int    `json:"d"`
}

// readPlan turns a Timex_Gen plan (time in abstract units) into steps in microseconds.
func readPlan(path string, unit int) []tstep {
	f, err := os.Open(path)
	if err != nil {
		tr.Fatal("%v", err)
	}
	defer f.Close()
	var out []tstep
	prev := 0
	sc := bufio.NewScanner(f)
	for sc.Scan() {
		var l planLine
		if err := json.Unmarshal(sc.Bytes(), &l); err != nil {
			tr.Fatal("plan %s: %v", path, err)
		}
		st := tstep{Op: l.Op, D: l.D * unit}
		if l.Op == "adv" {
			st.Dt = (l.T - prev) * unit
		}
		prev = l.T
		out = append(out, st)
	}
	if len(out) == 0 || out[0].Op != "new" {
		tr.Fatal("plan %s does not start with new", path)
	}
	return out
}

// randomHistory: durations from nothing to a few milliseconds, so that the runtime's firing really
// races with Stop / Reset / the receiver.
func randomHistory(rng *rand.Rand) []tstep {
	dur := func() int {
		switch rng.Intn(5) {
		case 0:
			return 0
		case 1:
			return 1 + rng.Intn(60)
		case 2:
			return 100 + rng.Intn(400)
		default:
			return 500 + rng.Intn(2500)
		}
	}
	out := []tstep{{Op: "new", D: dur()}}
	n := 6 + rng.Intn(10)
	for i := 0; i < n; i++ {
		switch k := rng.Intn(20); {
		case k < 4:
			out = append(out, tstep{Op: "stop"})
		case k < 9:
			out = append(out, tstep{Op: "reset", D: dur()})
		case k < 12:
			out = append(out, tstep{Op: "poll"})
		case k < 14:
			out = append(out, tstep{Op: "recv"})
		case k < 16:
			out = append(out, tstep{Op: "take"})
		default:
			out = append(out, tstep{Op: "adv", Dt: dur()})
		}
	}
	return out
}

// edgeHistory: Stop / Reset issued right at the deadline of the arming they cancel, then a look at what
// is (still) to be received.
func edgeHistory(rng *rand.Rand) []tstep {
	out := []tstep{{Op: "new", D: 150 + rng.Intn(1200)}}
	for i, n := 0, 2+rng.Intn(3); i < n; i++ {
		out = append(out, tstep{Op: "adv", Edge: true, Jit: rng.Intn(260) - 90})
		d := 600 + rng.Intn(1500)
		if rng.Intn(3) == 0 {
			out = append(out, tstep{Op: "stop"}, tstep{Op: "adv", Dt: 300 + rng.Intn(600)}, tstep{Op: "poll"},
				tstep{Op: "reset", D: d})
		} else {
			out = append(out, tstep{Op: "reset", D: d})
			switch rng.Intn(3) {
			case 0:
				out = append(out, tstep{Op: "poll"})
			case 1:
				out = append(out, tstep{Op: "recv"}, tstep{Op: "take"}, tstep{Op: "reset", D: d})
			}
		}
	}
	return out
}

var texec *qx.Exec

const (
	pRecv = 1 // the goroutine that sits in <-t.C
	pCtl  = 2 // the goroutine that calls Stop / Reset / polls
)

func runTimer(w *tr.W, rng *rand.Rand) (traces, ticks, parked int) {
	var all [][]tstep
	if *fPlans != "" {
		files, _ := filepath.Glob(filepath.Join(*fPlans, "*.ndjson"))
		sort.Strings(files)
		for i, f := range files {
			if i >= *fMaxPl {
				break
			}
			all = append(all, readPlan(f, *fUnit))
		}
	}
	for i := 0; i < *fNHist; i++ {
		if i%3 == 2 {
			all = append(all, edgeHistory(rng))
		} else {
			all = append(all, randomHistory(rng))
		}
	}
	for _, steps := range all {
		t, p := runTimerTrace(w, steps)
		traces++
		ticks += t
		if p {
			parked++
		}
	}
	return
}

type tickT struct {
	got bool
	at  int
}

func (k tickT) rec() tr.E { return tr.E{"got": k.got, "at": k.at} }

// runTimerTrace executes one schedule on a fresh timex.Timer.
func runTimerTrace(w *tr.W, steps []tstep) (ticks int, endParked bool) {
	if texec == nil {
		texec = qx.New(2)
	}
	x := texec
	base := time.Now()
	us := func() int { return int(time.Since(base) / time.Microsecond) }
	at := func(tv time.Time) int { return int(tv.Sub(base) / time.Microsecond) }
	settle := func() {
		if err := x.Settle(); err != nil {
			tr.Fatal("timer: %v", err)
		}
	}
	none := tickT{}

	// shadow of the SPEC's view (never of the implementation): is a tick of the current arming
	// still to come?  It only decides how long the harness is willing to wait for the receiver.
	armT := us()
	armD := steps[0].D
	tm := timex.NewTimer(time.Duration(armD) * time.Microsecond)
	expect := true
	w.Emit(tr.E{"ev": "reset", "t": armT, "d": armD, "slack": *fSlack})

	call := func(a tr.E, r tickT) {
		if r.got {
			ticks++
			expect = false
		}
		w.Emit(tr.E{"ev": "call", "a": a, "r": r.rec()})
	}
	// has the receiver come back?
	reap := func() {
		if !x.Busy(pRecv) {
			return
		}
		if v, ok := x.Take(pRecv); ok {
			call(tr.E{"op": "take", "t": us()}, tickT{true, v.(int)})
		}
	}
	// wait for the receiver as long as the spec says a tick is still to come (at most `slack` past
	// its deadline); returns as soon as the receiver is back
	await := func() {
		if !x.Busy(pRecv) || !expect {
			return
		}
		deadline := armT + armD + *fSlack + 20000
		for us() < deadline {
			settle()
			if v, ok := x.Take(pRecv); ok {
				call(tr.E{"op": "take", "t": us()}, tickT{true, v.(int)})
				return
			}
			time.Sleep(200 * time.Microsecond)
		}
	}
	// run f on the controller goroutine; false = it never came back
	ctl := func(a tr.E, f func() interface{}) (interface{}, bool) {
		x.Issue(pCtl, f)
		settle()
		v, ok := x.Take(pCtl)
		if !ok {
			w.Emit(tr.E{"ev": "hang", "a": a, "state": x.WaitState(pCtl)})
		}
		return v, ok
	}

	// len(t.C) read immediately before a Stop / Reset is issued: whether the tick of the arming the call
	// cancels had been delivered by then is what tells a tick that was left behind from one in flight
	prelen := func() {
		if cap(tm.C) == 1 {
			w.Emit(tr.E{"ev": "len", "n": len(tm.C)})
		}
	}
	hung := false
	for _, st := range steps[1:] {
		switch st.Op {
		case "stop":
			prelen()
			a := tr.E{"op": "stop", "t": us()}
			if _, ok := ctl(a, func() interface{} { tm.Stop(); return 0 }); !ok {
				hung = true
			} else {
				expect = false
				call(a, none)
			}
		case "reset":
			prelen()
			a := tr.E{"op": "reset", "t": us(), "d": st.D}
			d := time.Duration(st.D) * time.Microsecond
			if _, ok := ctl(a, func() interface{} { tm.Reset(d); return 0 }); !ok {
				hung = true
			} else {
				armT, armD, expect = a["t"].(int), st.D, true
				call(a, none)
			}
		case "poll":
			a := tr.E{"op": "poll", "t": us()}
			v, ok := ctl(a, func() interface{} {
				select {
				case tv := <-tm.C:
					return tickT{true, at(tv)}
				default:
					return tickT{}
				}
			})
			if !ok {
				hung = true
			} else {
				call(a, v.(tickT))
			}
		case "recv":
			if x.Busy(pRecv) {
				continue
			}
			a := tr.E{"op": "recv", "t": us()}
			x.Issue(pRecv, func() interface{} { return at(<-tm.C) })
			call(a, none)
			settle()
		case "take":
			await()
		case "adv":
			if st.Edge {
				for us() < armT+armD+st.Jit { // spin: a sleep is far too coarse for this
				}
			} else {
				time.Sleep(time.Duration(st.Dt) * time.Microsecond)
			}
			call(tr.E{"op": "adv", "t": us()}, none)
		case "fire": // the runtime's own step in the plan: give the real timer the same chance
			time.Sleep(time.Duration(*fUnit) * time.Microsecond)
			continue
		default:
			tr.Fatal("timer: unknown step %q", st.Op)
		}
		if hung {
			break
		}
		settle()
		reap()
		if cap(tm.C) == 1 {
			w.Emit(tr.E{"ev": "len", "n": len(tm.C)})
		}
	}
	if hung {
		texec = nil // the controller sits inside neptune for ever: leave this executor behind
		return
	}
	// every trace ends by collecting the tick the spec still expects (Reset really re-armed)
	if expect && !x.Busy(pRecv) {
		a := tr.E{"op": "recv", "t": us()}
		x.Issue(pRecv, func() interface{} { return at(<-tm.C) })
		call(a, none)
		settle()
	}
	await()
	settle()
	reap()
	endParked = x.Busy(pRecv)
	w.Emit(tr.E{"ev": "end", "t": us(), "rp": endParked})
	// clean up outside the trace, with the embedded time.Timer itself
	if endParked {
		tm.Timer.Reset(0)
		for i := 0; x.Busy(pRecv); i++ {
			settle()
			x.Take(pRecv)
			if i > 20000 {
				tr.Fatal("timer: cannot release the receiver")
			}
		}
	}
	tm.Timer.Stop()
	return
}
