// x02: executes plans and seeded histories against tex map helpers (MapClone, MapMerge, MapVal2*),
// tex.To* conversions, genericx/slicex and stringx, recording ndjson traces for validation by TLC
// (specs/containers/*_Trace.tla).
package main

import (
	"bufio"
	"encoding/json"
	"flag"
	"fmt"
	"math/rand"
	"os"
	"path/filepath"
	"sort"

	"verif/harness/internal/tr"
)

func readPlan(path string, mk func() interface{}, add func(interface{})) {
	f, err := os.Open(path)
	if err != nil {
		tr.Fatal("open plan: %v", err)
	}
	defer f.Close()
	sc := bufio.NewScanner(f)
	sc.Buffer(make([]byte, 1<<20), 1<<24)
	for sc.Scan() {
		if len(sc.Bytes()) == 0 {
			continue
		}
		x := mk()
		if err := json.Unmarshal(sc.Bytes(), x); err != nil {
			tr.Fatal("plan %s: %v", path, err)
		}
		add(x)
	}
}

func planFiles(dir string) []string {
	if dir == "" {
		return nil
	}
	files, _ := filepath.Glob(filepath.Join(dir, "*.ndjson"))
	sort.Strings(files)
	return files
}

func main() {
	mplans := flag.String("mplans", "", "directory of Containers plans")
	splans := flag.String("splans", "", "directory of Slices plans")
	mout := flag.String("mout", "", "map traces")
	sout := flag.String("sout", "", "slice/string traces")
	cout := flag.String("cout", "", "conversion traces")
	seed := flag.Int64("seed", 1, "seed")
	nmap := flag.Int("nmap", 150, "seeded map histories")
	nseq := flag.Int("nseq", 150, "seeded slice histories")
	nconv := flag.Int("nconv", 3000, "random conversions per batch")
	maxops := flag.Int("maxops", 40, "max ops per history")
	flag.Parse()
	rng := rand.New(rand.NewSource(*seed))
	summary := ""

	if *mout != "" {
		w := tr.Create(*mout)
		m := &mapRun{w: w, rng: rng}
		for _, f := range planFiles(*mplans) {
			var p []mact
			readPlan(f, func() interface{} { return &mact{} }, func(x interface{}) {
				a := *x.(*mact)
				if a.N != nil {
					normNode(a.N)
				}
				p = append(p, a)
			})
			if len(p) == 0 || p[0].Op != "init" {
				tr.Fatal("plan %s does not start with init", f)
			}
			m.run("plan:"+filepath.Base(f), p[0].NH, p[1:])
		}
		m.run("matrix", 3, matrixHistory(rng))
		for i := 0; i < *nmap; i++ {
			nh := rng.Intn(3) + 2
			m.run("rand", nh, genMapHistory(rng, nh, rng.Intn(7)+2, rng.Intn(*maxops)+6))
		}
		w.Close()
		summary += fmt.Sprintf("map_events=%d ", w.N())
	}
	if *sout != "" {
		n := runSeqs(*sout, *splans, rng, *nseq, *maxops)
		summary += fmt.Sprintf("seq_events=%d ", n)
	}
	if *cout != "" {
		n := runConv(*cout, rng, *nconv)
		summary += fmt.Sprintf("conv_events=%d ", n)
	}
	fmt.Println(summary)
}
