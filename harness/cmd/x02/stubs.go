package main

import "math/rand"

func runSeqs(out, plans string, rng *rand.Rand, n, maxops int) int { return 0 }
func runConv(out string, rng *rand.Rand, n int) int                { return 0 }
