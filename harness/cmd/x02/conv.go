package main

// conv.go: feeds boundary-biased and random values of every numeric Go type the tex.To*
// conversions know, and decimal / junk strings, to every conversion and records source value and
// result as arbitrary-precision decimal digits (specs/containers/Conv_Trace.tla).

import (
	"fmt"
	"math"
	"math/big"
	"math/rand"
	"time"

	"github.com/pinealctx/neptune/tex"

	"verif/harness/internal/tr"
)

func digits(b *big.Int) (bool, []int) {
	s := new(big.Int).Abs(b).String()
	if s == "0" {
		return false, []int{}
	}
	d := make([]int, len(s))
	for i := range s {
		d[i] = int(s[i] - '0')
	}
	return b.Sign() < 0, d
}

func numRec(b *big.Int) tr.E {
	neg, d := digits(b)
	return tr.E{"neg": neg, "d": d}
}

func bi(x int64) *big.Int              { return big.NewInt(x) }
func bu(x uint64) *big.Int             { return new(big.Int).SetUint64(x) }
func pow2(n uint) *big.Int             { return new(big.Int).Lsh(big.NewInt(1), n) }
func add(a *big.Int, k int64) *big.Int { return new(big.Int).Add(a, big.NewInt(k)) }

// mk builds a value of Go type ty holding b, if b fits.
func mk(ty string, b *big.Int) (interface{}, bool) {
	in := func(lo, hi *big.Int) bool { return b.Cmp(lo) >= 0 && b.Cmp(hi) <= 0 }
	s, u := b.Int64(), b.Uint64()
	sOK := b.IsInt64()
	uOK := b.IsUint64()
	switch ty {
	case "i8":
		return int8(s), sOK && in(bi(-128), bi(127))
	case "u8":
		return uint8(u), uOK && in(bi(0), bi(255))
	case "i16":
		return int16(s), sOK && in(bi(-32768), bi(32767))
	case "u16":
		return uint16(u), uOK && in(bi(0), bi(65535))
	case "i32":
		return int32(s), sOK && in(bi(math.MinInt32), bi(math.MaxInt32))
	case "u32":
		return uint32(u), uOK && in(bi(0), bi(math.MaxUint32))
	case "i64":
		return s, sOK
	case "u64":
		return u, uOK
	case "int":
		return int(s), sOK
	case "uint":
		return uint(u), uOK
	case "jsi":
		return tex.JsInt64(s), sOK
	case "jsu":
		return tex.JsUInt64(u), uOK
	case "tdur":
		return time.Duration(s), sOK
	case "dur":
		return tex.Duration(s), sOK
	case "pdur":
		d := tex.Duration(s)
		return &d, sOK
	case "f64":
		f, _ := new(big.Float).SetInt(b).Float64()
		back, acc := big.NewFloat(f).Int(nil)
		return f, !math.IsInf(f, 0) && acc == big.Exact && back.Cmp(b) == 0
	case "f32":
		f, _ := new(big.Float).SetInt(b).Float32()
		back, acc := big.NewFloat(float64(f)).Int(nil)
		return f, !math.IsInf(float64(f), 0) && acc == big.Exact && back.Cmp(b) == 0
	}
	tr.Fatal("unknown source type %q", ty)
	return nil, false
}

var convTypes = []string{"i8", "u8", "i16", "u16", "i32", "u32", "i64", "u64", "int", "uint", "jsi", "jsu",
	"tdur", "dur", "pdur", "f32", "f64"}
var convTargets = []string{"int", "uint", "i32", "u32", "i64", "u64", "jsi", "jsu", "f64", "bool", "str", "bytes", "dur"}

func f64res(f float64) tr.E {
	if math.IsInf(f, 0) || math.IsNaN(f) {
		return tr.E{"fin": false, "int": false, "neg": false, "d": []int{}}
	}
	b, acc := big.NewFloat(f).Int(nil)
	if acc != big.Exact {
		return tr.E{"fin": true, "int": false, "neg": false, "d": []int{}}
	}
	neg, d := digits(b)
	return tr.E{"fin": true, "int": true, "neg": neg, "d": d}
}

// convert applies the tex conversion named by the target; a panic inside tex is reported.
func convert(v interface{}, to string) (r interface{}, pan string) {
	defer func() {
		if e := recover(); e != nil {
			pan = fmt.Sprint(e)
		}
	}()
	switch to {
	case "int":
		return numRec(bi(int64(tex.ToInt(v)))), ""
	case "uint":
		return numRec(bu(uint64(tex.ToUInt(v)))), ""
	case "i32":
		return numRec(bi(int64(tex.ToInt32(v)))), ""
	case "u32":
		return numRec(bu(uint64(tex.ToUInt32(v)))), ""
	case "i64":
		return numRec(bi(tex.ToInt64(v))), ""
	case "u64":
		return numRec(bu(tex.ToUInt64(v))), ""
	case "jsi":
		return numRec(bi(int64(tex.ToJsInt64(v)))), ""
	case "jsu":
		return numRec(bu(uint64(tex.ToJsUInt64(v)))), ""
	case "f64":
		return f64res(tex.ToFloat64(v)), ""
	case "bool":
		return tex.ToBool(v), ""
	case "str":
		return tr.Str(tex.ToString(v)), ""
	case "bytes":
		return tr.Ints(tex.ToBytes(v)), ""
	case "dur":
		d, ok := tex.ToDuration(v)
		neg, ds := digits(bi(int64(d)))
		return tr.E{"ok": ok, "neg": neg, "d": ds}, ""
	}
	tr.Fatal("unknown target %q", to)
	return nil, ""
}

func candidates(rng *rand.Rand, n int) []*big.Int {
	var c []*big.Int
	for _, x := range []int64{0, 1, 2, 3, 7, 10, 100, 127, 128, 129, 255, 256, 257, 32767, 32768, 65535, 65536,
		99999, 16777216, 16777217, 2147483647, 2147483648, 2147483649, 4294967295, 4294967296, 4294967297,
		9007199254740991, 9007199254740992, 9007199254740993, 9007199254740994, math.MaxInt64, math.MaxInt64 - 1} {
		c = append(c, bi(x), bi(-x))
	}
	p63, p64 := pow2(63), pow2(64)
	c = append(c, bi(math.MinInt64), add(bi(math.MinInt64), -1), add(bi(math.MinInt64), -2048),
		p63, add(p63, 1), add(p63, 5), add(p63, 2048), new(big.Int).Mul(pow2(62), bi(3)),
		add(p64, -1), add(p64, -2), add(p64, -2048), p64, add(p64, 1), add(p64, 4096), pow2(70), new(big.Int).Neg(pow2(70)),
		new(big.Int).Exp(bi(10), bi(19), nil), new(big.Int).Exp(bi(10), bi(20), nil))
	for i := 0; i < n; i++ {
		bits := uint(rng.Intn(66) + 1)
		x := new(big.Int).Rand(rng, pow2(bits))
		if rng.Intn(2) == 0 {
			x.Neg(x)
		}
		c = append(c, x)
		// a float-representable neighbour: keep the top 24 / 53 bits
		if bits > 24 {
			keep := uint(53)
			if rng.Intn(2) == 0 {
				keep = 24
			}
			if bits > keep {
				y := new(big.Int).Rsh(new(big.Int).Abs(x), bits-keep)
				y.Lsh(y, bits-keep)
				if x.Sign() < 0 {
					y.Neg(y)
				}
				c = append(c, y)
			}
		}
	}
	return c
}

var junkTexts = []string{"", " ", "abc", "12ab", " 7", "7 ", "1e3", "0x10", "1.5", "1_000", "--1", "+-1", "+", "-",
	"true", "TRUE", "tRuE", "True ", "false", "T", "٣", "１２"}

func runConv(out string, rng *rand.Rand, n int) int {
	w := tr.Create(out)
	w.NoSync = false
	one := func(src tr.E, v interface{}) {
		w.Emit(tr.E{"ev": "reset", "ty": src["ty"]})
		for _, to := range convTargets {
			r, pan := convert(v, to)
			if pan != "" {
				w.Emit(tr.E{"ev": "panic", "src": src, "to": to, "msg": pan})
				return
			}
			w.Emit(tr.E{"ev": "conv", "src": src, "to": to, "r": r})
		}
	}
	cs := candidates(rng, n)
	for _, b := range cs {
		neg, d := digits(b)
		for _, ty := range convTypes {
			if v, ok := mk(ty, b); ok {
				one(tr.E{"k": "num", "ty": ty, "neg": neg, "d": d, "txt": []int{}}, v)
			}
		}
		// decimal texts of the same number, in the spellings Atoi accepts
		txts := []string{b.String()}
		switch rng.Intn(4) {
		case 0:
			if b.Sign() >= 0 {
				txts = append(txts, "+"+b.String())
			}
		case 1:
			if b.Sign() >= 0 {
				txts = append(txts, "00"+b.String())
			} else {
				txts = append(txts, "-0"+b.String()[1:])
			}
		}
		for _, s := range txts {
			one(tr.E{"k": "txt", "ty": "str", "neg": false, "d": []int{}, "txt": tr.Str(s)}, s)
		}
	}
	for _, s := range junkTexts {
		one(tr.E{"k": "txt", "ty": "str", "neg": false, "d": []int{}, "txt": tr.Str(s)}, s)
	}
	w.Close()
	return w.N()
}
