package main

// maps.go: executes Containers plans and seeded histories against tex.MapClone, tex.MapMerge and
// the MapVal2* getters; after every step the trees of ALL handles are read back from the real Go
// maps (specs/containers/Containers_Trace.tla).

import (
	"fmt"
	"math/rand"
	"strings"
	"time"

	"github.com/pinealctx/neptune/tex"

	"verif/harness/internal/tr"
)

type gmap = map[string]interface{}

type mact struct {
	Op string   `json:"op"`
	H  int      `json:"h"`
	To int      `json:"to"`
	B  int      `json:"b"`
	D  int      `json:"d"`
	P  []string `json:"p"`
	K  string   `json:"k"`
	N  gmap     `json:"n"`
	G  string   `json:"g"`
	NH int      `json:"nh"`
}

func (a mact) rec() tr.E {
	p := append([]string{}, a.P...)
	switch a.Op {
	case "set":
		return tr.E{"op": a.Op, "h": a.H, "p": p, "k": a.K, "n": a.N}
	case "mkmap", "del":
		return tr.E{"op": a.Op, "h": a.H, "p": p, "k": a.K}
	case "new":
		return tr.E{"op": a.Op, "h": a.H}
	case "clone":
		return tr.E{"op": a.Op, "h": a.H, "to": a.To}
	case "merge":
		return tr.E{"op": a.Op, "b": a.B, "d": a.D, "to": a.To}
	case "get":
		return tr.E{"op": a.Op, "h": a.H, "p": p, "k": a.K, "g": a.G}
	}
	tr.Fatal("unknown map op %q", a.Op)
	return nil
}

func cl(x int64) int {
	if x > 1000000000 {
		return 1000000001
	}
	if x < -1000000000 {
		return -1000000001
	}
	return int(x)
}

// intAs stores the integer n in one of the Go types that can hold it (all denote the same number).
func intAs(rng *rand.Rand, n int) interface{} {
	for {
		switch rng.Intn(14) {
		case 0:
			if n >= -128 && n <= 127 {
				return int8(n)
			}
		case 1:
			if n >= 0 && n <= 255 {
				return uint8(n)
			}
		case 2:
			if n >= -32768 && n <= 32767 {
				return int16(n)
			}
		case 3:
			if n >= 0 && n <= 65535 {
				return uint16(n)
			}
		case 4:
			return int32(n)
		case 5:
			if n >= 0 {
				return uint32(n)
			}
		case 6:
			return int64(n)
		case 7:
			if n >= 0 {
				return uint64(n)
			}
		case 8:
			if n >= 0 {
				return uint(n)
			}
		case 9:
			return tex.JsInt64(n)
		case 10:
			if n >= 0 {
				return tex.JsUInt64(n)
			}
		case 11:
			return time.Duration(n)
		case 12:
			return tex.Duration(n)
		default:
			return n
		}
	}
}

// leaf builds the Go value a leaf node of the model stands for.
func leaf(rng *rand.Rand, n gmap) interface{} {
	switch n["t"] {
	case "i":
		return intAs(rng, num(n["i"]))
	case "s":
		if ci, ok := n["s"].([]int); ok {
			b := make([]byte, len(ci))
			for i, c := range ci {
				b[i] = byte(c)
			}
			return string(b)
		}
		cs := n["s"].([]interface{})
		b := make([]byte, len(cs))
		for i, c := range cs {
			b[i] = byte(num(c))
		}
		return string(b)
	case "b":
		return n["b"].(bool)
	case "n":
		return nil
	case "u":
		return time.Unix(int64(num(n["u"])), 0)
	case "l":
		es := n["e"].([]interface{})
		r := make([]interface{}, len(es))
		for i, e := range es {
			r[i] = leaf(rng, e.(gmap))
		}
		return r
	}
	tr.Fatal("unknown leaf %v", n)
	return nil
}

func clu(x uint64) int {
	if x > 1000000000 {
		return 1000000001
	}
	return int(x)
}

func num(x interface{}) int {
	switch v := x.(type) {
	case float64:
		return int(v)
	case int:
		return v
	}
	tr.Fatal("not a number: %v", x)
	return 0
}

// enc reads a real Go value back into the node encoding of the model.
func enc(v interface{}) gmap {
	switch x := v.(type) {
	case nil:
		return gmap{"t": "n"}
	case gmap:
		return gmap{"t": "m", "kv": encTree(x)}
	case []interface{}:
		es := make([]interface{}, len(x))
		for i := range x {
			es[i] = enc(x[i])
		}
		return gmap{"t": "l", "e": es}
	case string:
		return gmap{"t": "s", "s": tr.Str(x)}
	case bool:
		return gmap{"t": "b", "b": x}
	case time.Time:
		return gmap{"t": "u", "u": cl(x.Unix())}
	case int:
		return gmap{"t": "i", "i": cl(int64(x))}
	case int8:
		return gmap{"t": "i", "i": int(x)}
	case uint8:
		return gmap{"t": "i", "i": int(x)}
	case int16:
		return gmap{"t": "i", "i": int(x)}
	case uint16:
		return gmap{"t": "i", "i": int(x)}
	case int32:
		return gmap{"t": "i", "i": cl(int64(x))}
	case uint32:
		return gmap{"t": "i", "i": cl(int64(x))}
	case int64:
		return gmap{"t": "i", "i": cl(x)}
	case uint64:
		return gmap{"t": "i", "i": clu(uint64(x))}
	case uint:
		return gmap{"t": "i", "i": clu(uint64(x))}
	case tex.JsInt64:
		return gmap{"t": "i", "i": cl(int64(x))}
	case tex.JsUInt64:
		return gmap{"t": "i", "i": clu(uint64(x))}
	case time.Duration:
		return gmap{"t": "i", "i": cl(int64(x))}
	case tex.Duration:
		return gmap{"t": "i", "i": cl(int64(x))}
	}
	return gmap{"t": "?", "go": fmt.Sprintf("%T", v)}
}

func encTree(m gmap) gmap {
	r := gmap{}
	for k, v := range m {
		r[k] = enc(v)
	}
	return r
}

type mapRun struct {
	w   *tr.W
	rng *rand.Rand
	hs  []gmap // 1-based
}

func (m *mapRun) walk(h int, p []string) (gmap, bool) {
	cur := m.hs[h]
	for _, k := range p {
		v, ok := cur[k]
		if !ok {
			return nil, false
		}
		mm, ok := v.(gmap)
		if !ok {
			return nil, false
		}
		cur = mm
	}
	return cur, true
}

func (m *mapRun) obs() []interface{} {
	o := make([]interface{}, 0, len(m.hs)-1)
	for h := 1; h < len(m.hs); h++ {
		o = append(o, encTree(m.hs[h]))
	}
	return o
}

// do performs one step on the real maps; a panic inside tex is reported as a `panic` event.
func (m *mapRun) do(a mact) (r interface{}, pan string) {
	guard := func(f func()) { // only calls into tex are guarded: a harness bug must stay a crash
		defer func() {
			if e := recover(); e != nil {
				pan = fmt.Sprint(e)
			}
		}()
		f()
	}
	switch a.Op {
	case "set", "mkmap", "del":
		if len(a.P) == 0 && m.hs[a.H] == nil {
			m.hs[a.H] = gmap{} // a nil map denotes the empty map; writing needs a real one
		}
		t, ok := m.walk(a.H, a.P)
		if ok && t != nil {
			switch a.Op {
			case "set":
				t[a.K] = leaf(m.rng, a.N)
			case "mkmap":
				t[a.K] = gmap{}
			case "del":
				delete(t, a.K)
			}
		}
		return 0, ""
	case "new":
		if m.rng.Intn(2) == 0 {
			m.hs[a.H] = nil
		} else {
			m.hs[a.H] = gmap{}
		}
		return 0, ""
	case "clone":
		guard(func() { m.hs[a.To] = tex.MapClone(m.hs[a.H]) })
		return 0, pan
	case "merge":
		guard(func() { m.hs[a.To] = tex.MapMerge(m.hs[a.B], m.hs[a.D]) })
		return 0, pan
	case "get":
		t, _ := m.walk(a.H, a.P) // invalid path: the getter sees a nil map
		guard(func() { r = getter(t, a.K, a.G) })
		return r, pan
	}
	tr.Fatal("unknown map op %q", a.Op)
	return nil, ""
}

func (m *mapRun) run(src string, nh int, acts []mact) {
	m.hs = make([]gmap, nh+1)
	for h := 1; h <= nh; h++ {
		m.hs[h] = gmap{}
	}
	m.w.Emit(tr.E{"ev": "reset", "nh": nh, "src": src})
	for _, a := range acts {
		r, pan := m.do(a)
		if pan != "" {
			m.w.Emit(tr.E{"ev": "panic", "a": a.rec(), "msg": pan})
			return
		}
		m.w.Emit(tr.E{"ev": "call", "a": a.rec(), "r": r, "obs": m.obs()})
	}
}

func pathKey(p []string) string { return strings.Join(p, "/") }
