package main

// maps2.go: the typed getters as logged replies, and the seeded history generator for maps.

import (
	"math"
	"math/rand"

	"github.com/pinealctx/neptune/tex"

	"verif/harness/internal/tr"
)

func f64rec(f float64) tr.E {
	if f == math.Trunc(f) && math.Abs(f) < 1e9 {
		return tr.E{"int": true, "v": int(f)}
	}
	return tr.E{"int": false, "v": 0}
}

func lrec(ok bool, v []interface{}) tr.E { return tr.E{"ok": ok, "v": v} }

// getter calls the tex getter(s) of class g on map t and renders the result in the fixed
// shape Containers.ReplyOK expects.
func getter(t gmap, k, g string) interface{} {
	switch g {
	case "has":
		return tex.KeyInMap(t, k)
	case "int":
		return tr.E{"i": cl(int64(tex.MapVal2Int(t, k))), "i64": cl(tex.MapVal2Int64(t, k)),
			"i32": cl(int64(tex.MapVal2Int32(t, k))), "js": cl(int64(tex.MapVal2JsInt64(t, k)))}
	case "bool":
		return tex.MapVal2Bool(t, k)
	case "str":
		return tr.Str(tex.MapVal2String(t, k))
	case "bytes":
		return tr.Ints(tex.MapVal2Bytes(t, k))
	case "f64":
		return f64rec(tex.MapVal2Float64(t, k))
	case "dur":
		d, ok := tex.MapVal2Duration(t, k)
		return tr.E{"ok": ok, "v": cl(int64(d))}
	case "time":
		tm, ok := tex.MapVal2Time(t, k)
		v := 0
		if ok {
			v = cl(tm.Unix())
		} else if !tm.IsZero() {
			v = 1
		}
		return tr.E{"ok": ok, "v": v}
	case "ilist":
		a, oka := tex.MapVal2IntList(t, k)
		b, okb := tex.MapVal2Int64List(t, k)
		c, okc := tex.MapVal2Int32List(t, k)
		d, okd := tex.MapVal2JsInt64List(t, k)
		va, vb, vc, vd := []interface{}{}, []interface{}{}, []interface{}{}, []interface{}{}
		for _, x := range a {
			va = append(va, cl(int64(x)))
		}
		for _, x := range b {
			vb = append(vb, cl(x))
		}
		for _, x := range c {
			vc = append(vc, cl(int64(x)))
		}
		for _, x := range d {
			vd = append(vd, cl(int64(x)))
		}
		return tr.E{"i": lrec(oka, va), "i64": lrec(okb, vb), "i32": lrec(okc, vc), "js": lrec(okd, vd)}
	case "blist":
		a, ok := tex.MapVal2BoolList(t, k)
		v := []interface{}{}
		for _, x := range a {
			v = append(v, x)
		}
		return lrec(ok, v)
	case "flist":
		a, ok := tex.MapVal2Float64List(t, k)
		v := []interface{}{}
		for _, x := range a {
			v = append(v, f64rec(x))
		}
		return lrec(ok, v)
	case "slist":
		a, ok := tex.MapVal2StringList(t, k)
		v := []interface{}{}
		for _, x := range a {
			v = append(v, tr.Str(x))
		}
		return lrec(ok, v)
	}
	tr.Fatal("unknown getter %q", g)
	return nil
}

var allGetters = []string{"has", "int", "bool", "str", "bytes", "f64", "dur", "time", "ilist", "blist", "flist", "slist"}

func strNode(s string) gmap { return gmap{"t": "s", "s": tr.Str(s)} }

var someStrings = []string{"", "42", "-7", "+15", "007", "true", "TRUE", "tRuE", "false", "x", "12ab", " 5", "hello world", "99999999"}

func randScalar(rng *rand.Rand) gmap {
	switch rng.Intn(10) {
	case 0, 1, 2, 3:
		vals := []int{0, 1, -1, 2, 7, -3, 100, 255, 256, -128, -129, 65535, 70000, -70000, 999999999}
		return gmap{"t": "i", "i": vals[rng.Intn(len(vals))]}
	case 4, 5:
		return strNode(someStrings[rng.Intn(len(someStrings))])
	case 6:
		return gmap{"t": "b", "b": rng.Intn(2) == 0}
	case 7:
		return gmap{"t": "n"}
	case 8:
		return gmap{"t": "u", "u": rng.Intn(1000000000)}
	}
	return gmap{"t": "i", "i": rng.Intn(2001) - 1000}
}

func randLeaf(rng *rand.Rand) gmap {
	if rng.Intn(5) == 0 {
		n := rng.Intn(5)
		es := make([]interface{}, n)
		for i := range es {
			if rng.Intn(3) == 0 {
				es[i] = randScalar(rng)
			} else {
				es[i] = gmap{"t": "i", "i": rng.Intn(200001) - 100000}
			}
		}
		return gmap{"t": "l", "e": es}
	}
	return randScalar(rng)
}

// genMapHistory draws a history.  `known` is the generator's own rough book-keeping of which
// paths hold nested maps (never read from the maps under test); it only biases the choice of
// paths towards valid ones.
func genMapHistory(rng *rand.Rand, nh, nkeys, n int) []mact {
	keys := []string{"a", "b", "c", "k1", "key-2", "Z", "x.y", "0"}[:nkeys]
	known := make([]map[string]bool, nh+1)
	for h := range known {
		known[h] = map[string]bool{"": true}
	}
	rk := func() string { return keys[rng.Intn(len(keys))] }
	rh := func() int { return rng.Intn(nh) + 1 }
	split := func(s string) []string {
		if s == "" {
			return []string{}
		}
		var p []string
		cur := ""
		for _, c := range s {
			if c == '/' {
				p = append(p, cur)
				cur = ""
			} else {
				cur += string(c)
			}
		}
		return append(p, cur)
	}
	rp := func(h int) []string {
		if rng.Intn(5) == 0 { // arbitrary, possibly invalid
			p := []string{}
			for i := rng.Intn(4); i > 0; i-- {
				p = append(p, rk())
			}
			return p
		}
		ks := make([]string, 0, len(known[h]))
		for k := range known[h] {
			ks = append(ks, k)
		}
		// map iteration order is random: sort for determinism
		for i := 1; i < len(ks); i++ {
			for j := i; j > 0 && ks[j] < ks[j-1]; j-- {
				ks[j], ks[j-1] = ks[j-1], ks[j]
			}
		}
		return split(ks[rng.Intn(len(ks))])
	}
	acts := make([]mact, 0, n)
	for len(acts) < n {
		x := rng.Intn(100)
		switch {
		case x < 22:
			h := rh()
			p := rp(h)
			k := rk()
			delete(known[h], pathKey(append(append([]string{}, p...), k)))
			acts = append(acts, mact{Op: "set", H: h, P: p, K: k, N: randLeaf(rng)})
			if rng.Intn(2) == 0 { // read the same key back through some getter
				acts = append(acts, mact{Op: "get", H: h, P: p, K: k, G: allGetters[rng.Intn(len(allGetters))]})
			}
		case x < 40:
			h := rh()
			p := rp(h)
			k := rk()
			if len(p) < 4 && known[h][pathKey(p)] {
				known[h][pathKey(append(append([]string{}, p...), k))] = true
			}
			acts = append(acts, mact{Op: "mkmap", H: h, P: p, K: k})
		case x < 46:
			h := rh()
			acts = append(acts, mact{Op: "del", H: h, P: rp(h), K: rk()})
		case x < 48:
			h := rh()
			known[h] = map[string]bool{"": true}
			acts = append(acts, mact{Op: "new", H: h})
		case x < 58:
			h, to := rh(), rh()
			if h != to {
				known[to] = map[string]bool{}
				for k := range known[h] {
					known[to][k] = true
				}
			}
			acts = append(acts, mact{Op: "clone", H: h, To: to})
		case x < 76:
			b, d, to := rh(), rh(), rh()
			nk := map[string]bool{}
			for k := range known[b] {
				nk[k] = true
			}
			for k := range known[d] {
				nk[k] = true
			}
			known[to] = nk
			acts = append(acts, mact{Op: "merge", B: b, D: d, To: to})
		default:
			h := rh()
			acts = append(acts, mact{Op: "get", H: h, P: rp(h), K: rk(), G: allGetters[rng.Intn(len(allGetters))]})
		}
	}
	return acts
}

// normNode turns the float64 numbers of a JSON-decoded plan node into ints.
func normNode(x interface{}) interface{} {
	switch v := x.(type) {
	case float64:
		return int(v)
	case map[string]interface{}:
		for k := range v {
			v[k] = normNode(v[k])
		}
		return v
	case []interface{}:
		for i := range v {
			v[i] = normNode(v[i])
		}
		return v
	}
	return x
}

// matrixHistory: every getter on every leaf kind (and on an absent key, a nested map, a cloned and a
// merged copy), so that each getter x kind combination is judged in every run.
func matrixHistory(rng *rand.Rand) []mact {
	ints := func(xs ...int) []interface{} {
		r := make([]interface{}, len(xs))
		for i, x := range xs {
			r[i] = gmap{"t": "i", "i": x}
		}
		return r
	}
	leaves := []gmap{
		{"t": "i", "i": 0}, {"t": "i", "i": 1}, {"t": "i", "i": -1}, {"t": "i", "i": 255}, {"t": "i", "i": -32768},
		{"t": "i", "i": 65536}, {"t": "i", "i": 999999999}, {"t": "i", "i": -999999999},
		strNode(""), strNode("0"), strNode("42"), strNode("-7"), strNode("+15"), strNode("007"), strNode("true"),
		strNode("TRUE"), strNode("tRuE"), strNode("x"), strNode("hello world"),
		{"t": "b", "b": true}, {"t": "b", "b": false}, {"t": "n"}, {"t": "u", "u": 0}, {"t": "u", "u": 86400},
		{"t": "l", "e": []interface{}{}}, {"t": "l", "e": ints(5)}, {"t": "l", "e": ints(0, -3, 70000, 1)},
		{"t": "l", "e": []interface{}{gmap{"t": "i", "i": 5}, strNode("12"), gmap{"t": "b", "b": true}, gmap{"t": "n"}, strNode("zz")}},
		randLeaf(rng), randLeaf(rng), randLeaf(rng),
	}
	var acts []mact
	keys := []string{}
	for i, n := range leaves {
		k := "k" + string(rune('A'+i%26)) + string(rune('0'+i/26))
		keys = append(keys, k)
		acts = append(acts, mact{Op: "set", H: 1, P: []string{}, K: k, N: n})
	}
	acts = append(acts, mact{Op: "mkmap", H: 1, P: []string{}, K: "sub"})
	keys = append(keys, "sub", "missing")
	acts = append(acts, mact{Op: "clone", H: 1, To: 2})
	acts = append(acts, mact{Op: "merge", B: 3, D: 1, To: 3})
	for _, k := range keys {
		for _, g := range allGetters {
			acts = append(acts, mact{Op: "get", H: rng.Intn(3) + 1, P: []string{}, K: k, G: g})
		}
	}
	// the same getters below a nested map
	acts = append(acts, mact{Op: "mkmap", H: 2, P: []string{}, K: "in"})
	for i, n := range leaves {
		if i%3 == 0 {
			acts = append(acts, mact{Op: "set", H: 2, P: []string{"in"}, K: keys[i], N: n})
			acts = append(acts, mact{Op: "get", H: 2, P: []string{"in"}, K: keys[i], G: allGetters[rng.Intn(len(allGetters))]})
		}
	}
	for _, g := range allGetters {
		acts = append(acts, mact{Op: "get", H: 2, P: []string{"nope"}, K: "kA0", G: g})
	}
	return acts
}
