package main

// seqs.go: executes Slices plans and seeded histories against genericx/slicex on []int handles
// (contents of ALL handles read back after every call) and feeds stringx / Sum[int8] with
// generated inputs (specs/containers/Slices_Trace.tla).

import (
	"fmt"
	"math/rand"
	"path/filepath"

	"github.com/pinealctx/neptune/genericx/slicex"
	"github.com/pinealctx/neptune/stringx"

	"verif/harness/internal/tr"
)

type sact struct {
	Op  string `json:"op"`
	H   int    `json:"h"`
	To  int    `json:"to"`
	I   int    `json:"i"`
	V   int    `json:"v"`
	C   int    `json:"c"`
	Vs  []int  `json:"vs"`
	Out []int  `json:"out"`
	NH  int    `json:"nh"`
}

func cp(s []int) []int { return append([]int{}, s...) }

func (a sact) rec() tr.E {
	switch a.Op {
	case "insert", "setat":
		return tr.E{"op": a.Op, "h": a.H, "i": a.I, "v": a.V}
	case "remove":
		return tr.E{"op": a.Op, "h": a.H, "i": a.I}
	case "rmelem", "find", "contain":
		return tr.E{"op": a.Op, "h": a.H, "v": a.V}
	case "containf":
		return tr.E{"op": a.Op, "h": a.H, "c": a.C}
	case "rmelems":
		return tr.E{"op": a.Op, "h": a.H, "vs": cp(a.Vs)}
	case "clone":
		return tr.E{"op": a.Op, "h": a.H, "to": a.To}
	case "sum", "max", "min":
		return tr.E{"op": a.Op, "h": a.H}
	case "shuffle":
		return tr.E{"op": a.Op, "h": a.H, "out": cp(a.Out)}
	}
	tr.Fatal("unknown slice op %q", a.Op)
	return nil
}

type seqRun struct {
	w  *tr.W
	hs [][]int // 1-based
}

func (m *seqRun) obs() []interface{} {
	o := make([]interface{}, 0, len(m.hs)-1)
	for h := 1; h < len(m.hs); h++ {
		o = append(o, cp(m.hs[h]))
	}
	return o
}

func clamp(x int) int { return cl(int64(x)) }

// do performs one call on the real slices; only the call into slicex is guarded.
func (m *seqRun) do(a *sact) (r interface{}, pan string) {
	guard := func(f func()) {
		defer func() {
			if e := recover(); e != nil {
				pan = fmt.Sprint(e)
			}
		}()
		f()
	}
	r = 0
	switch a.Op {
	case "insert":
		guard(func() { slicex.Insert(&m.hs[a.H], a.I, a.V) })
	case "remove":
		guard(func() { slicex.Remove(&m.hs[a.H], a.I) })
	case "rmelem":
		guard(func() { slicex.RemoveElem(&m.hs[a.H], a.V) })
	case "rmelems":
		guard(func() { slicex.RemoveElems(&m.hs[a.H], cp(a.Vs)) })
	case "setat": // the user's own element assignment
		if a.I < len(m.hs[a.H]) {
			m.hs[a.H][a.I] = a.V
		}
	case "clone":
		guard(func() { m.hs[a.To] = slicex.Clone(m.hs[a.H]) })
	case "find":
		guard(func() { r = clamp(slicex.FindIndex(m.hs[a.H], a.V)) })
	case "contain":
		guard(func() { r = slicex.Contain(m.hs[a.H], a.V) })
	case "containf":
		guard(func() { r = slicex.ContainFunc(m.hs[a.H], func(x int) bool { return x > a.C }) })
	case "sum":
		guard(func() { r = clamp(slicex.Sum(m.hs[a.H])) })
	case "max", "min":
		if len(m.hs[a.H]) == 0 { // the property says nothing about the empty list (the code panics)
			func() {
				defer func() { _ = recover() }()
				if a.Op == "max" {
					_ = slicex.Max(m.hs[a.H])
				} else {
					_ = slicex.Min(m.hs[a.H])
				}
			}()
			return tr.E{"ok": false, "v": 0}, ""
		}
		guard(func() {
			if a.Op == "max" {
				r = tr.E{"ok": true, "v": clamp(slicex.Max(m.hs[a.H]))}
			} else {
				r = tr.E{"ok": true, "v": clamp(slicex.Min(m.hs[a.H]))}
			}
		})
	case "shuffle":
		guard(func() {
			ret := slicex.Shuffle(m.hs[a.H])
			a.Out = cp(m.hs[a.H])
			r = cp(ret)
		})
	default:
		tr.Fatal("unknown slice op %q", a.Op)
	}
	return r, pan
}

func (m *seqRun) run(src string, nh int, acts []sact) {
	m.hs = make([][]int, nh+1)
	m.w.Emit(tr.E{"ev": "reset", "nh": nh, "src": src})
	for i := range acts {
		a := &acts[i]
		r, pan := m.do(a)
		if pan != "" {
			if a.Op == "shuffle" {
				a.Out = []int{}
			}
			m.w.Emit(tr.E{"ev": "panic", "a": a.rec(), "msg": pan})
			return
		}
		m.w.Emit(tr.E{"ev": "call", "a": a.rec(), "r": r, "obs": m.obs()})
	}
}

func genSeqHistory(rng *rand.Rand, nh, n int) []sact {
	pool := []int{0, 1, -1, 2, 3, 5, 7, -7, 42, 1000, -1000, 65536, 999999}
	nv := rng.Intn(len(pool)-2) + 2
	rv := func() int { return pool[rng.Intn(nv)] }
	rh := func() int { return rng.Intn(nh) + 1 }
	ri := func() int {
		if rng.Intn(8) == 0 {
			return 100 + rng.Intn(1000)
		}
		return rng.Intn(9)
	}
	acts := make([]sact, 0, n)
	for len(acts) < n {
		x := rng.Intn(100)
		switch {
		case x < 28:
			acts = append(acts, sact{Op: "insert", H: rh(), I: ri(), V: rv()})
		case x < 36:
			acts = append(acts, sact{Op: "remove", H: rh(), I: ri()})
		case x < 42:
			acts = append(acts, sact{Op: "rmelem", H: rh(), V: rv()})
		case x < 48:
			vs := make([]int, rng.Intn(5))
			for i := range vs {
				vs[i] = rv()
			}
			acts = append(acts, sact{Op: "rmelems", H: rh(), Vs: vs})
		case x < 60:
			acts = append(acts, sact{Op: "setat", H: rh(), I: rng.Intn(7), V: rv()})
		case x < 72:
			acts = append(acts, sact{Op: "clone", H: rh(), To: rh()})
		case x < 78:
			acts = append(acts, sact{Op: "shuffle", H: rh()})
		case x < 83:
			acts = append(acts, sact{Op: "find", H: rh(), V: rv()})
		case x < 87:
			acts = append(acts, sact{Op: "contain", H: rh(), V: rv()})
		case x < 90:
			acts = append(acts, sact{Op: "containf", H: rh(), C: rv()})
		case x < 94:
			acts = append(acts, sact{Op: "sum", H: rh()})
		case x < 97:
			acts = append(acts, sact{Op: "max", H: rh()})
		default:
			acts = append(acts, sact{Op: "min", H: rh()})
		}
	}
	return acts
}

func runSeqs(out, plans string, rng *rand.Rand, n, maxops int) int {
	w := tr.Create(out)
	m := &seqRun{w: w}
	for _, f := range planFiles(plans) {
		var p []sact
		readPlan(f, func() interface{} { return &sact{} }, func(x interface{}) { p = append(p, *x.(*sact)) })
		if len(p) == 0 || p[0].Op != "init" {
			tr.Fatal("plan %s does not start with init", f)
		}
		m.run("plan:"+filepath.Base(f), p[0].NH, p[1:])
	}
	for i := 0; i < n; i++ {
		nh := rng.Intn(3) + 2
		m.run("rand", nh, genSeqHistory(rng, nh, rng.Intn(maxops)+6))
	}
	runPure(w, rng, n*4)
	w.Close()
	return w.N()
}

// ------------------------------------------------------------------ pure functions

var runePool = []rune{'a', 'b', 'c', 'Z', '0', ' ', '\t', '\n', '\v', '\f', '\r', 0x85, 0xA0, 0x1680, 0x2000, 0x2001, 0x2002, 0x2003, 0x2004, 0x2005, 0x2006, 0x2007, 0x2008, 0x2009, 0x200A,
	0x200B, 0x2028, 0x2029, 0x202F, 0x205F, 0x3000, 0xFEFF, 0x1F, 0xE9, 0x3BB, 0x4E16, 0x1F600, 0x10FFFF, 0x301}

func randStr(rng *rand.Rand, maxLen int) string {
	n := rng.Intn(maxLen + 1)
	rs := make([]rune, n)
	for i := range rs {
		if rng.Intn(3) == 0 {
			rs[i] = runePool[rng.Intn(6)]
		} else {
			rs[i] = runePool[rng.Intn(len(runePool))]
		}
	}
	return string(rs)
}

func runes(s string) []int {
	r := []int{}
	for _, c := range s {
		r = append(r, int(c))
	}
	return r
}

func runesList(ss []string) []interface{} {
	r := make([]interface{}, len(ss))
	for i := range ss {
		r[i] = runes(ss[i])
	}
	return r
}

func randStrs(rng *rand.Rand, maxN, maxLen int) []string {
	ss := make([]string, rng.Intn(maxN+1))
	for i := range ss {
		ss[i] = randStr(rng, maxLen)
	}
	return ss
}

func runPure(w *tr.W, rng *rand.Rand, n int) {
	w.Emit(tr.E{"ev": "reset", "nh": 0, "src": "pure"})
	emit := func(a tr.E, f func() interface{}) {
		var r interface{}
		pan := ""
		func() {
			defer func() {
				if e := recover(); e != nil {
					pan = fmt.Sprint(e)
				}
			}()
			r = f()
		}()
		if pan != "" {
			w.Emit(tr.E{"ev": "panic", "a": a, "msg": pan})
			w.Emit(tr.E{"ev": "reset", "nh": 0, "src": "pure"})
			return
		}
		w.Emit(tr.E{"ev": "pure", "a": a, "r": r})
	}
	for i := 0; i < n; i++ {
		switch i % 7 {
		case 0:
			s := randStr(rng, 8)
			emit(tr.E{"op": "reverse", "s": runes(s)}, func() interface{} { return runes(stringx.Reverse(s)) })
		case 1:
			ss := randStrs(rng, 5, 4)
			if rng.Intn(2) == 0 {
				emit(tr.E{"op": "concat", "ss": runesList(ss)}, func() interface{} { return runes(stringx.Concat(ss...)) })
			} else {
				emit(tr.E{"op": "concat", "ss": runesList(ss)}, func() interface{} { return runes(stringx.ConcatSlice(ss)) })
			}
		case 2:
			hd, ss := randStr(rng, 4), randStrs(rng, 4, 4)
			if rng.Intn(2) == 0 {
				emit(tr.E{"op": "append", "hd": runes(hd), "ss": runesList(ss)}, func() interface{} { return runes(stringx.Append(hd, ss...)) })
			} else {
				emit(tr.E{"op": "append", "hd": runes(hd), "ss": runesList(ss)}, func() interface{} { return runes(stringx.AppendSlice(hd, ss)) })
			}
		case 3:
			s := randStr(rng, 8)
			subs := randStrs(rng, 3, 3)
			if rng.Intn(2) == 0 && len(s) > 0 { // a real substring now and then
				rs := []rune(s)
				i := rng.Intn(len(rs))
				j := i + rng.Intn(len(rs)-i+1)
				subs = append(subs, string(rs[i:j]))
			}
			if rng.Intn(2) == 0 {
				emit(tr.E{"op": "containany", "s": runes(s), "subs": runesList(subs)}, func() interface{} { return stringx.ContainAny(s, subs...) })
			} else {
				emit(tr.E{"op": "containany", "s": runes(s), "subs": runesList(subs)}, func() interface{} { return stringx.ContainsAnySubs(s, subs) })
			}
		case 4, 5:
			ss := randStrs(rng, 4, 7)
			arg := append([]string{}, ss...)
			emit(tr.E{"op": "trim", "ss": runesList(ss)}, func() interface{} {
				out := stringx.TrimStringsSpace(arg)
				return tr.E{"out": runesList(out), "arg": runesList(arg)}
			})
		case 6:
			xs := make([]int8, rng.Intn(7))
			ix := make([]int, len(xs))
			for j := range xs {
				xs[j] = int8(rng.Intn(256) - 128)
				if rng.Intn(2) == 0 {
					xs[j] /= 4
				}
				ix[j] = int(xs[j])
			}
			emit(tr.E{"op": "sum8", "xs": ix}, func() interface{} { return int(slicex.Sum(xs)) })
		}
	}
}
