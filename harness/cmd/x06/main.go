// x06: drives neptune/vcode (real VCLogic from NewSimpleLogic, a fake SMS gateway that captures the
// codes) with Config.CacheSize BELOW, at and above the number of active (area, phone) pairs, so that
// the LRU cache behind vcode evicts.  Plans come from TLC (specs/vcodelru/VCodeLRU_Gen.tla), histories
// are seeded.  One ndjson event per call for validation by specs/vcodelru/VCodeLRU_Trace.tla.
// The harness never judges a reply and never looks into the cache: it only chooses inputs; what it
// remembers about a pair (last code / hash handed out) is kept whatever the cache may have dropped.
package main

import (
	"bufio"
	"encoding/json"
	"errors"
	"flag"
	"fmt"
	"math"
	"math/rand"
	"os"
	"path/filepath"
	"sort"
	"strings"
	"time"

	"github.com/pinealctx/neptune/tex"
	"github.com/pinealctx/neptune/vcode"
	"google.golang.org/grpc/status"

	"verif/harness/internal/tr"
)

// ---------------------------------------------------------------- fake SMS gateway
type msg struct{ area, phone, code, at string }

type fakeSMS struct {
	got    []msg
	fail   string // "" deliver, "err" return an error, "panic"
	failed bool
}

type gwPanic struct{}

func (f *fakeSMS) SendCode(areaCode, phone, code string) error {
	f.got = append(f.got, msg{areaCode, phone, code, strings.Clone(code)})
	switch f.fail {
	case "err":
		f.failed = true
		return errors.New("sms gateway: connection refused")
	case "panic":
		f.failed = true
		panic(gwPanic{})
	}
	return nil
}

// guard runs one call of the code under test: a panic is recovered, a call that does not come back
// within the watchdog time is reported as "hang".  Both are observations for the spec.
const watchdog = 20 * time.Second

func guard(fn func()) (out string, pv interface{}) {
	done := make(chan struct{})
	go func() {
		defer close(done)
		defer func() {
			if x := recover(); x != nil {
				out, pv = fmt.Sprintf("panic: %v", x), x
			}
		}()
		fn()
	}()
	t := time.NewTimer(watchdog)
	defer t.Stop()
	select {
	case <-done:
		return out, pv
	case <-t.C:
		return "hang", nil
	}
}

// ---------------------------------------------------------------- configuration (regimes, as C19)
type regime struct {
	Mock      bool  `json:"mock"`
	Len       int   `json:"len"`
	TTL       bool  `json:"ttl"` // true: a code never expires; false: always expired
	Gap       bool  `json:"gap"` // true: min interval never violated; false: every re-send too early
	Win       bool  `json:"win"` // true: one counting window for ever; false: every send renews it
	MaxCount  int   `json:"maxCount"`
	MaxVerify int   `json:"maxVerify"`
	Cache     int64 `json:"cache"` // Config.CacheSize
}

var (
	huge   = []time.Duration{time.Hour, 24 * time.Hour, 365 * 24 * time.Hour, math.MaxInt64}
	neg    = []time.Duration{-1, -time.Second, -time.Hour, math.MinInt64}
	nonPos = []time.Duration{0, -1, -time.Hour, math.MinInt64}
)

func pick(rng *rand.Rand, ds []time.Duration) time.Duration { return ds[rng.Intn(len(ds))] }

func (g regime) config(rng *rand.Rand) (*vcode.Config, tr.E) {
	c := &vcode.Config{CacheSize: g.Cache, Mock: g.Mock, CodeLen: g.Len, MaxCount: g.MaxCount,
		MaxVerifyCount: g.MaxVerify}
	ttl, gap, win := pick(rng, neg), pick(rng, nonPos), pick(rng, neg)
	if g.TTL {
		ttl = pick(rng, huge)
	}
	if !g.Gap {
		gap = pick(rng, huge)
	}
	if g.Win {
		win = pick(rng, huge)
	}
	c.TTL, c.MinInterval, c.CounterDuration = tex.Duration(ttl), tex.Duration(gap), tex.Duration(win)
	return c, tr.E{"ttl": ttl.String(), "min_interval": gap.String(), "counter_duration": win.String()}
}

// ---------------------------------------------------------------- one VCLogic lifetime
type pair struct{ area, phone string }
type sent struct{ code, hash string }
type pstate struct {
	cur, old sent
	has, had bool
}

type inst struct {
	w     *tr.W
	g     regime
	sms   *fakeSMS
	logic vcode.VCLogic
	ps    map[pair]*pstate
	order []pair // pairs in order of first send that went out
	rng   *rand.Rand
	dead  bool
	calls int
}

func newInst(w *tr.W, rng *rand.Rand, g regime, src string, npairs int) *inst {
	cfg, raw := g.config(rng)
	in := &inst{w: w, g: g, sms: &fakeSMS{}, ps: map[pair]*pstate{}, rng: rng}
	in.logic = vcode.NewSimpleLogic(cfg, in.sms, vcode.NewSimpleCache(cfg.CacheSize))
	w.Emit(tr.E{"ev": "reset", "mock": g.Mock, "len": g.Len, "ttl": g.TTL, "gap": g.Gap, "win": g.Win,
		"maxCount": g.MaxCount, "maxVerify": g.MaxVerify, "cache": int(g.Cache), "src": src,
		"npairs": npairs, "durations": raw})
	return in
}

func pj(p pair) tr.E { return tr.E{"area": tr.Str(p.area), "phone": tr.Str(p.phone)} }

func sendClass(err error) string {
	switch status.Convert(err).Message() {
	case "send.code.freq.limit":
		return "freq"
	case "send.code.count.limit":
		return "count"
	}
	return "other: " + err.Error()
}

func verifyClass(err error) (r, class string) {
	switch status.Convert(err).Message() {
	case "verify.code.retry.limit":
		return "limit", "limit"
	case "verify.code.not.exist":
		return "fail", "noexist"
	case "verify.code.timeout":
		return "fail", "timeout"
	case "verify.code.not.match":
		return "fail", "nomatch"
	case "verify.hash.code.not.match":
		return "fail", "hash"
	}
	return "fail", "other: " + err.Error()
}

func mockCode(phone string, n int) string {
	if len(phone) >= n {
		return phone[len(phone)-n:]
	}
	return strings.Repeat("0", n-len(phone)) + phone
}

func (in *inst) send(p pair) { in.sendVia(p, "") }

func (in *inst) sendVia(p pair, gw string) {
	if in.dead {
		return
	}
	in.calls++
	in.sms.got, in.sms.fail, in.sms.failed = nil, gw, false
	var hash string
	var err error
	out, pv := guard(func() { hash, err = in.logic.SendSMSCode(p.area, p.phone) })
	in.sms.fail = ""
	r, class := "ok", "none"
	_, gwp := pv.(gwPanic)
	switch {
	case out == "hang":
		r, class, in.dead = "hang", "no return within the watchdog time", true
	case out != "" && !(gwp && in.sms.failed):
		r, class = "panic", out
	case in.sms.failed:
		r, class = "gw", "gateway "+gw
	case err != nil:
		r, class = "refused", sendClass(err)
	}
	sms := make([]tr.E, 0, len(in.sms.got))
	stable := true
	for _, m := range in.sms.got {
		sms = append(sms, tr.E{"area": tr.Str(m.area), "phone": tr.Str(m.phone), "code": tr.Str(m.code)})
		stable = stable && m.code == m.at
	}
	in.w.Emit(tr.E{"ev": "call", "a": tr.E{"op": "send", "p": pj(p), "r": r, "err": class,
		"hash": tr.Str(hash), "sms": sms, "stable": stable}})
	if r != "ok" && r != "gw" {
		return
	}
	st := in.ps[p]
	if st == nil {
		st = &pstate{}
		in.ps[p] = st
		in.order = append(in.order, p)
	}
	code := ""
	if in.g.Mock {
		code = mockCode(p.phone, in.g.Len)
	} else if len(in.sms.got) > 0 {
		code = in.sms.got[len(in.sms.got)-1].code
	}
	if st.has {
		st.old, st.had = st.cur, true
	}
	st.cur, st.has = sent{code, hash}, true
}

func (in *inst) verify(p pair, cref, href string) {
	if in.dead {
		return
	}
	in.calls++
	code, hash := in.refCode(p, cref), in.refHash(p, href)
	var err error
	out, _ := guard(func() { err = in.logic.VerifySMSCode(p.area, p.phone, code, hash) })
	r, class := "ok", "none"
	switch {
	case out == "hang":
		r, class, in.dead = "hang", "no return within the watchdog time", true
	case out != "":
		r, class = "panic", out
	case err != nil:
		r, class = verifyClass(err)
	}
	in.w.Emit(tr.E{"ev": "call", "a": tr.E{"op": "verify", "p": pj(p), "code": tr.Str(code),
		"hash": tr.Str(hash), "r": r, "err": class, "cref": cref, "href": href}})
}

// ---------------------------------------------------------------- what to present
func (in *inst) other(p pair) (pair, bool) {
	for _, q := range in.order {
		if q != p {
			return q, true
		}
	}
	return p, false
}

func (in *inst) badCode(p pair) string {
	base := strings.Repeat("0", in.g.Len)
	if st := in.ps[p]; st != nil && st.has && st.cur.code != "" {
		base = st.cur.code
	}
	switch in.rng.Intn(4) {
	case 0:
		return "!"
	case 1:
		return base + "0"
	case 2:
		return ""
	}
	b := []byte(base)
	if len(b) == 0 {
		return "1"
	}
	i := in.rng.Intn(len(b))
	if b[i] >= '0' && b[i] <= '9' {
		b[i] = '0' + (b[i]-'0'+1+byte(in.rng.Intn(9)))%10
	} else {
		b[i] = '0'
	}
	return string(b)
}

func (in *inst) badHash(p pair) string {
	base := "00000000000000000000000000000000"
	if st := in.ps[p]; st != nil && st.has && st.cur.hash != "" {
		base = st.cur.hash
	}
	switch in.rng.Intn(3) {
	case 0:
		return ""
	case 1:
		return base + "0"
	}
	return base[:len(base)-1]
}

func (in *inst) refCode(p pair, ref string) string {
	st := in.ps[p]
	switch ref {
	case "cur":
		if st != nil && st.has {
			return st.cur.code
		}
	case "old":
		if st != nil && st.had {
			return st.old.code
		}
	case "oth":
		if q, ok := in.other(p); ok {
			return in.ps[q].cur.code
		}
	}
	return in.badCode(p)
}

func (in *inst) refHash(p pair, ref string) string {
	st := in.ps[p]
	switch ref {
	case "cur":
		if st != nil && st.has {
			return st.cur.hash
		}
	case "old":
		if st != nil && st.had {
			return st.old.hash
		}
	case "oth":
		if q, ok := in.other(p); ok {
			return in.ps[q].cur.hash
		}
	}
	return in.badHash(p)
}

// ---------------------------------------------------------------- plans from TLC
type planStep struct {
	Op string `json:"op"`
	regime
	P struct {
		Area  []int `json:"area"`
		Phone []int `json:"phone"`
	} `json:"p"`
	Cref string `json:"cref"`
	Href string `json:"href"`
}

func str(codes []int) string {
	b := make([]byte, len(codes))
	for i, c := range codes {
		b[i] = byte(c)
	}
	return string(b)
}

func readPlan(path string) []planStep {
	f, err := os.Open(path)
	if err != nil {
		tr.Fatal("%v", err)
	}
	defer f.Close()
	var out []planStep
	sc := bufio.NewScanner(f)
	sc.Buffer(make([]byte, 1<<20), 1<<20)
	for sc.Scan() {
		var s planStep
		if err := json.Unmarshal(sc.Bytes(), &s); err != nil {
			tr.Fatal("plan %s: %v", path, err)
		}
		out = append(out, s)
	}
	return out
}

func runPlan(w *tr.W, rng *rand.Rand, name string, steps []planStep) int {
	if len(steps) == 0 || steps[0].Op != "init" {
		tr.Fatal("plan %s does not start with init", name)
	}
	seen := map[pair]bool{}
	for _, s := range steps[1:] {
		if s.Op == "send" || s.Op == "verify" {
			seen[pair{str(s.P.Area), str(s.P.Phone)}] = true
		}
	}
	in := newInst(w, rng, steps[0].regime, "plan:"+name, len(seen))
	for _, s := range steps[1:] {
		p := pair{str(s.P.Area), str(s.P.Phone)}
		switch s.Op {
		case "send":
			in.send(p)
		case "verify":
			in.verify(p, s.Cref, s.Href)
		case "trim", "end": // the spec's own steps
		default:
			tr.Fatal("plan %s: unknown op %q", name, s.Op)
		}
	}
	return in.calls
}

// ---------------------------------------------------------------- seeded histories
var (
	phonesA = []string{"23", "3", "13800138000", "5550100", "007", "9", "1234", "0"}
	areasA  = []string{"1", "12", "86", "49", "001"}
	refs    = []string{"cur", "cur", "cur", "cur", "old", "oth", "bad"}
)

func randRegime(rng *rand.Rand, npairs int) regime {
	g := regime{Mock: rng.Intn(2) == 0, Len: 1 + rng.Intn(6), TTL: rng.Intn(5) != 0,
		Gap: rng.Intn(3) != 0, Win: rng.Intn(2) == 0, MaxCount: rng.Intn(5), MaxVerify: rng.Intn(6)}
	if rng.Intn(10) == 0 {
		g.MaxCount = -1
	}
	if rng.Intn(12) == 0 {
		g.MaxVerify = -1
	}
	// CacheSize 1..4, now and then 0 (a store that holds nothing) or the number of pairs and more
	g.Cache = int64(1 + rng.Intn(4))
	switch rng.Intn(12) {
	case 0:
		g.Cache = 0
	case 1:
		g.Cache = int64(npairs + rng.Intn(2))
	}
	return g
}

func randPairs(rng *rand.Rand) []pair {
	ps := []pair{{"1", "23"}, {"12", "3"}} // the two that concatenate alike
	n := rng.Intn(5)                       // 2..6 pairs
	for len(ps) < 2+n {
		p := pair{areasA[rng.Intn(len(areasA))], phonesA[rng.Intn(len(phonesA))]}
		dup := false
		for _, q := range ps {
			dup = dup || q == p
		}
		if !dup {
			ps = append(ps, p)
		}
	}
	rng.Shuffle(len(ps), func(i, j int) { ps[i], ps[j] = ps[j], ps[i] })
	return ps
}

func (in *inst) randVerify(p pair) {
	cref, href := refs[in.rng.Intn(len(refs))], refs[in.rng.Intn(len(refs))]
	if in.rng.Intn(2) == 0 {
		cref, href = "cur", "cur"
	}
	in.verify(p, cref, href)
}

// free mix: a working set that drifts over the pairs, so that pairs fall out of and come back into
// the most recent CacheSize
func runRandom(w *tr.W, rng *rand.Rand, nops int) int {
	ps := randPairs(rng)
	g := randRegime(rng, len(ps))
	in := newInst(w, rng, g, "rand", len(ps))
	gwLeft := 2
	ws := 1 + rng.Intn(len(ps)) // size of the working set
	base := 0
	for i := 0; i < nops && !in.dead; i++ {
		if rng.Intn(6) == 0 {
			base = (base + 1) % len(ps)
		}
		p := ps[(base+rng.Intn(ws))%len(ps)]
		if rng.Intn(8) == 0 {
			p = ps[rng.Intn(len(ps))]
		}
		if rng.Intn(100) < 45 {
			gw := ""
			if !g.Mock && gwLeft > 0 && rng.Intn(15) == 0 {
				gw = []string{"err", "panic"}[rng.Intn(2)]
				gwLeft--
			}
			in.sendVia(p, gw)
			continue
		}
		in.randVerify(p)
	}
	return in.calls
}

// shaped histories: input patterns that make recency matter (which call keeps a pair warm)
func runShaped(w *tr.W, rng *rand.Rand) int {
	ps := randPairs(rng)
	g := randRegime(rng, len(ps))
	if g.MaxVerify < 3 && rng.Intn(3) != 0 {
		g.MaxVerify = 3 + rng.Intn(3)
	}
	kind := []string{"thrash", "keepwarm-verify", "keepwarm-badverify", "keepwarm-resend", "fill-then-probe"}[rng.Intn(5)]
	in := newInst(w, rng, g, "shape:"+kind, len(ps))
	a, rest := ps[0], ps[1:]
	switch kind {
	case "thrash": // round robin over all pairs, several rounds, every pair probed before its re-send
		for round := 0; round < 3; round++ {
			for _, p := range ps {
				if round > 0 {
					in.verify(p, "cur", "cur")
				}
				in.send(p)
			}
		}
	case "keepwarm-verify", "keepwarm-badverify", "keepwarm-resend":
		in.send(a)
		for round := 0; round < 2; round++ {
			for _, p := range rest {
				in.send(p)
				switch kind {
				case "keepwarm-verify":
					in.verify(a, "cur", "cur")
				case "keepwarm-badverify":
					in.verify(a, "bad", "cur")
				default:
					in.send(a) // refused or not, by the regime
				}
			}
		}
		in.verify(a, "cur", "cur")
	case "fill-then-probe":
		for _, p := range ps {
			in.send(p)
		}
		for _, i := range rng.Perm(len(ps)) {
			in.verify(ps[i], "cur", "cur")
		}
		for _, i := range rng.Perm(len(ps)) {
			in.send(ps[i])
			in.verify(ps[i], "cur", "cur")
		}
	}
	for _, i := range rng.Perm(len(ps)) { // what is left of everybody
		in.verify(ps[i], "cur", "cur")
	}
	return in.calls
}

func main() {
	plans := flag.String("plans", "", "directory of TLC plans")
	out := flag.String("out", "", "trace file")
	seed := flag.Int64("seed", 1, "seed")
	nrand := flag.Int("rand", 300, "seeded free histories")
	nshape := flag.Int("shape", 200, "seeded shaped histories")
	maxops := flag.Int("maxops", 60, "calls per free history")
	flag.Parse()
	w := tr.Create(*out)
	defer w.Close()
	rng := rand.New(rand.NewSource(*seed))
	calls, nplans := 0, 0
	if *plans != "" {
		files, _ := filepath.Glob(filepath.Join(*plans, "*.ndjson"))
		sort.Strings(files)
		for _, f := range files {
			calls += runPlan(w, rng, filepath.Base(f), readPlan(f))
			nplans++
		}
	}
	for i := 0; i < *nrand; i++ {
		calls += runRandom(w, rng, 10+rng.Intn(*maxops))
	}
	for i := 0; i < *nshape; i++ {
		calls += runShaped(w, rng)
	}
	fmt.Printf("x06: %d plans, %d free and %d shaped histories, %d calls\n", nplans, *nrand, *nshape, calls)
}
