// c07: feeds boundary-biased ids and time intervals to the snowflake codec functions
// (IDFields / IDParse / IDParseEx, CnStyle / FromChStyle, TimeIDRange / TimeBetweenID) under every
// layout and many epochs, and records the results for validation by TLC
// (specs/snowcodec/SnowCodec_Trace.tla).  64-bit values are logged as 4 limbs of 16 bits.
package main

import (
	"flag"
	"fmt"
	"math/rand"
	"os"
	"runtime"
	"sort"
	"sync"
	"sync/atomic"
	"time"
	_ "time/tzdata" // zone rules embedded: DST locations work offline

	"github.com/pinealctx/neptune/idgen/snowflake"

	"verif/harness/internal/tr"
)

const stepBits = 12

func limbs(x int64) []int { return tr.Limbs(uint64(x)) }

type layout struct {
	epoch int64
	nb    uint8
	low   bool
}

func (l layout) tsBits() uint  { return 63 - stepBits - uint(l.nb) }
func (l layout) tshift() uint  { return uint(l.nb) + stepBits }
func (l layout) tsMax() int64  { return int64(1)<<l.tsBits() - 1 }
func (l layout) lowMax() int64 { return int64(1)<<l.tshift() - 1 }

func ms(y int, m time.Month, d, hh, mm, ss, msec int, loc *time.Location) int64 {
	t := time.Date(y, m, d, hh, mm, ss, msec*1000000, loc)
	return t.Unix()*1000 + int64(t.Nanosecond()/1000000)
}

var shanghai = time.FixedZone("CST", 8*3600)

// nsEnd is the last millisecond int64 nanoseconds can express (2262-04-11T23:47:16.854Z).
const nsEnd = int64(^uint64(0)>>1) / 1000000

func epochs(rng *rand.Rand) []int64 {
	return []int64{
		ms(2000, 1, 1, 0, 0, 0, 0, time.UTC),
		ms(2000, 1, 1, 0, 0, 0, 0, shanghai),
		1609430400000, // package default
		ms(2024, 2, 29, 23, 59, 59, 777, time.UTC),
		ms(2100, 6, 1, 12, 0, 0, 1, time.UTC),
		ms(2150, 1, 1, 0, 0, 0, 0, time.UTC) + rng.Int63n(86400000),
		time.Now().UnixNano() / 1000000,
		ms(2500, 7, 4, 3, 2, 1, 500, time.UTC), // beyond what int64 nanoseconds can express (2262)
		ms(9000, 1, 1, 0, 0, 0, 0, time.UTC),   // the latest epoch whose dates keep four-digit years
		ms(2000, 1, 1, 0, 0, 0, 0, time.UTC) + rng.Int63n(ms(2200, 1, 1, 0, 0, 0, 0, time.UTC)-ms(2000, 1, 1, 0, 0, 0, 0, time.UTC)),
	}
}

// tsCandidates: timestamps (ms offsets from the epoch) worth looking at.
func tsCandidates(rng *rand.Rand, l layout, n int) []int64 {
	max := l.tsMax()
	out := []int64{0, 1, 2, 999, 1000, 1001, max, max - 1, max - 999, max - 1000, max / 2}
	for k := uint(1); k <= l.tsBits(); k += 1 + uint(rng.Intn(3)) {
		out = append(out, int64(1)<<k-1, int64(1)<<k)
	}
	// calendar boundaries in the zone the date form uses, the 2262 boundary of int64 nanoseconds
	for i := 0; i < 12; i++ {
		y := 2000 + rng.Intn(300)
		abs := []int64{
			ms(y, 1, 1, 0, 0, 0, 0, shanghai), ms(y, 12, 31, 23, 59, 59, 999, shanghai),
			ms(y, 2, 28, 23, 59, 59, 999, shanghai), ms(y, 3, 1, 0, 0, 0, 0, shanghai),
			ms(y, time.Month(1+rng.Intn(12)), 1+rng.Intn(28), rng.Intn(24), rng.Intn(60), rng.Intn(60), rng.Intn(1000), shanghai),
		}
		for _, a := range abs {
			out = append(out, a-l.epoch)
		}
	}
	for _, d := range []int64{-2, -1, 0, 1, 2, 1000, 86400000, 86400000 * 365} {
		out = append(out, nsEnd+d-l.epoch)
	}
	for i := 0; i < n; i++ {
		switch rng.Intn(3) {
		case 0:
			out = append(out, rng.Int63n(max+1))
		case 1:
			out = append(out, rng.Int63n(int64(1)<<uint(1+rng.Intn(int(l.tsBits())))))
		default: // around today
			out = append(out, time.Now().UnixNano()/1000000-l.epoch+rng.Int63n(86400000*400)-86400000*200)
		}
	}
	res := out[:0]
	for _, t := range out {
		if t >= 0 && t <= max {
			res = append(res, t)
		}
	}
	return res
}

func lowCandidates(rng *rand.Rand, l layout) []int64 {
	m := l.lowMax()
	nodeMax := int64(1)<<l.nb - 1
	mk := func(node, step int64) int64 {
		if l.low {
			return step<<uint(l.nb) | node
		}
		return node<<stepBits | step
	}
	out := []int64{0, 1, m, m - 1, m / 2, m/2 + 1, mk(nodeMax, 0), mk(0, 4095), mk(1, 1), mk(nodeMax-1, 4094),
		9999999 & m, 1000000, 999999}
	for i := 0; i < 6; i++ {
		out = append(out, rng.Int63n(m+1), mk(rng.Int63n(nodeMax+1), rng.Int63n(4096)))
	}
	return out
}

type fields struct{ ts, node, step int64 }

func (f fields) rec() tr.E {
	return tr.E{"ts": limbs(f.ts), "node": small(f.node), "step": small(f.step)}
}

// small keeps an out-of-range field value visible without leaving int32 (TLC integers).
func small(v int64) int {
	if v < -1 || v > 1<<30 {
		return -2
	}
	return int(v)
}

// sink receives trace events: the trace writer or a goroutine's private buffer.
type sink interface{ Emit(tr.E) }

type bufSink struct{ evs []tr.E }

func (b *bufSink) Emit(e tr.E) { b.evs = append(b.evs, e) }

// progress / inCall feed the watchdog: a codec call that never returns is reported as a `hang` event
// (which the specification cannot explain) instead of ending the run by a timeout.
var progress, inCall int64

func guard(w sink, what string, f func()) {
	defer func() {
		if p := recover(); p != nil {
			w.Emit(tr.E{"ev": "panic", "what": what, "msg": fmt.Sprint(p)})
		}
		atomic.AddInt64(&inCall, -1)
		atomic.AddInt64(&progress, 1)
	}()
	atomic.AddInt64(&inCall, 1)
	f()
}

func watchdog(w *tr.W) {
	last, idle := int64(-1), 0
	for {
		time.Sleep(2 * time.Second)
		p := atomic.LoadInt64(&progress)
		if p == last && atomic.LoadInt64(&inCall) > 0 {
			idle++
		} else {
			idle = 0
		}
		last = p
		if idle >= 4 {
			// the main goroutine is inside a codec call and has not come back for 8 s: it is not
			// writing to the trace, so the watchdog may
			w.Emit(tr.E{"ev": "hang", "what": "codec call does not return"})
			w.Close()
			fmt.Println("hang")
			os.Exit(0)
		}
	}
}

func doID(w sink, l layout, id int64) {
	guard(w, "fields", func() {
		ts, node, step := snowflake.IDFields(id)
		pms, pnode, pstep := snowflake.IDParse(id)
		xt, xnode, xstep := snowflake.IDParseEx(id)
		xms := xt.Unix()*1000 + int64(xt.Nanosecond()/1000000)
		w.Emit(tr.E{"ev": "id", "id": limbs(id), "ts": limbs(ts), "node": small(node), "step": small(step),
			"pms": limbs(pms), "pnode": small(pnode), "pstep": small(pstep),
			"xms": limbs(xms), "xnode": small(xnode), "xstep": small(xstep)})
	})
}

func doDate(w sink, l layout, id int64) {
	guard(w, "date", func() {
		cn := snowflake.CnStyle(id)
		emitDate(w, l, id, cn)
	})
}

// emitDate decodes the date form twice (the same string, like a caller that parses a stored value
// again) and writes the event.
func emitDate(w sink, l layout, id int64, cn string) {
	back, err := snowflake.FromChStyle(cn)
	back2, err2 := snowflake.FromChStyle(cn)
	cn2 := snowflake.CnStyle(id) // asked again (for kept strings: after all the others were rendered)
	abs := id>>l.tshift() + l.epoch
	w.Emit(tr.E{"ev": "date", "id": limbs(id), "cn": tr.Str(cn), "back": limbs(back), "err": err != nil,
		"back2": limbs(back2), "err2": err2 != nil, "cn2": tr.Str(cn2), "nsovf": abs > nsEnd})
}

// doDatesRetained: the strings CnStyle returned are kept AS RETURNED while all the other ids are
// rendered, and only then decoded and written: what a call returned must still be what it returned
// (a date form built in a reused buffer would be overwritten by the later calls).
func doDatesRetained(w sink, l layout, ids []int64) {
	cns := make([]string, len(ids))
	ok := make([]bool, len(ids))
	for i, id := range ids {
		i, id := i, id
		guard(w, "date", func() {
			cns[i] = snowflake.CnStyle(id)
			ok[i] = true
		})
	}
	for i, id := range ids {
		if !ok[i] {
			continue
		}
		i, id := i, id
		guard(w, "date", func() { emitDate(w, l, id, cns[i]) })
	}
}

func doPair(w sink, a, b int64) {
	guard(w, "pair", func() {
		var fa, fb fields
		fa.ts, fa.node, fa.step = snowflake.IDFields(a)
		fb.ts, fb.node, fb.step = snowflake.IDFields(b)
		w.Emit(tr.E{"ev": "pair", "a": limbs(a), "b": limbs(b), "fa": fa.rec(), "fb": fb.rec()})
	})
}

// zones the time arguments are expressed in.  The codec must depend on the instant only: fixed
// zones with odd offsets and locations with daylight-saving rules (where a wall-clock reading can
// denote two instants, or none).
var fixedZones = []*time.Location{time.UTC, shanghai, time.FixedZone("W", -11*3600),
	time.FixedZone("+0545", 5*3600+45*60), time.FixedZone("-0330", -(3*3600 + 30*60)),
	time.FixedZone("+000001", 1), time.FixedZone("-115959", -(11*3600 + 59*60 + 59))}

var dstZones = loadZones("America/New_York", "Europe/Berlin", "Australia/Lord_Howe", "America/Sao_Paulo",
	"Asia/Tehran", "Pacific/Chatham", "Europe/London", "America/St_Johns")

var zones = append(append([]*time.Location{}, fixedZones...), dstZones...)

func loadZones(names ...string) []*time.Location {
	var out []*time.Location
	for _, n := range names {
		loc, err := time.LoadLocation(n)
		if err != nil {
			tr.Fatal("zone %s: %v", n, err)
		}
		out = append(out, loc)
	}
	return out
}

func offsetAt(loc *time.Location, sec int64) int {
	_, off := time.Unix(sec, 0).In(loc).Zone()
	return off
}

// transition of a location: at unix second `at` the UTC offset changes from `from` to `to`.
type transition struct {
	loc      *time.Location
	at       int64
	from, to int
}

// transitions finds the offset changes of loc in [lo, hi) (unix seconds) by comparing the offset at
// day steps and bisecting to the second.
func transitions(loc *time.Location, lo, hi int64) []transition {
	var out []transition
	for d := lo; d < hi; d += 86400 {
		a, b := d, d+86400
		oa, ob := offsetAt(loc, a), offsetAt(loc, b)
		if oa == ob {
			continue
		}
		for b-a > 1 {
			m := (a + b) / 2
			if offsetAt(loc, m) == oa {
				a = m
			} else {
				b = m
			}
		}
		out = append(out, transition{loc, b, oa, ob})
	}
	return out
}

// zinst is an instant (absolute ms) to be expressed in a particular location.
type zinst struct {
	abs int64
	loc *time.Location
}

// dstInstants: instants in and around the repeated wall-clock span of fall-back transitions (both
// occurrences of the same reading), the skipped span of spring-forward transitions, inside the
// window [loAbs, hiAbs] (ms) that the layout can express.
func dstInstants(rng *rand.Rand, loAbs, hiAbs int64) []zinst {
	var out []zinst
	for _, loc := range dstZones {
		// a few years: the start of the window, random ones, and history (rules that were abolished)
		years := []int64{0, 1, 2, int64(rng.Intn(40)), int64(rng.Intn(150))}
		for _, y := range years {
			lo := loAbs/1000 + y*31556952
			if lo*1000 > hiAbs {
				continue
			}
			for _, tn := range transitions(loc, lo, lo+31556952+86400) {
				d := int64(tn.from - tn.to) // > 0: clocks go back, the span [at-d, at) is repeated in [at, at+d)
				if d < 0 {
					d = -d
				}
				for _, ds := range []int64{-d - 1, -d, -d + 1, -d / 2, -2, -1, 0, 1, 2, d / 2, d - 1, d, d + 1,
					-rng.Int63n(d + 1), rng.Int63n(d + 1)} {
					abs := (tn.at+ds)*1000 + int64(rng.Intn(1000))
					if rng.Intn(4) == 0 {
						abs = (tn.at+ds)*1000 + []int64{0, 999}[rng.Intn(2)]
					}
					if abs >= loAbs && abs <= hiAbs {
						out = append(out, zinst{abs, loc})
					}
				}
			}
		}
	}
	return out
}

func instantIn(rng *rand.Rand, absMs int64, loc *time.Location) time.Time {
	ns := int64(rng.Intn(1000000))
	if rng.Intn(3) == 0 {
		ns = []int64{0, 1, 999999}[rng.Intn(3)]
	}
	sec := absMs / 1000
	rem := absMs % 1000
	if rem < 0 {
		sec--
		rem += 1000
	}
	return time.Unix(sec, rem*1000000+ns).In(loc)
}

func instant(rng *rand.Rand, absMs int64) time.Time {
	return instantIn(rng, absMs, zones[rng.Intn(len(zones))])
}

func doRange(w sink, rng *rand.Rand, l layout, offB, offE int64) {
	doRangeAt(w, instant(rng, l.epoch+offB), instant(rng, l.epoch+offE))
}

func doRangeAt(w sink, b, e time.Time) {
	if e.Before(b) {
		e = b
	}
	guard(w, "range", func() {
		min, max := snowflake.TimeBetweenID(b, e)
		w.Emit(tr.E{"ev": "range", "fn": "between", "bsec": limbs(b.Unix()), "esec": limbs(e.Unix()),
			"min": limbs(min), "max": limbs(max), "zb": b.Location().String(), "ze": e.Location().String()})
	})
	for _, t := range []time.Time{b, e} {
		t := t
		guard(w, "range", func() {
			min, max := snowflake.TimeIDRange(t)
			w.Emit(tr.E{"ev": "range", "fn": "range", "bsec": limbs(t.Unix()), "esec": limbs(t.Unix()),
				"min": limbs(min), "max": limbs(max), "zb": t.Location().String(), "ze": t.Location().String()})
		})
	}
}

// doTogether: G goroutines run IDFields/IDParse/IDParseEx, CnStyle/FromChStyle and the range
// functions on their own share of the ids at the same time; each records into its own buffer.
func doTogether(w sink, rng *rand.Rand, l layout, ids []int64, G int) {
	bufs := make([]*bufSink, G)
	seeds := make([]int64, G)
	for g := range bufs {
		bufs[g] = &bufSink{}
		seeds[g] = rng.Int63()
	}
	var ready int32
	var wg sync.WaitGroup
	for g := 0; g < G; g++ {
		wg.Add(1)
		go func(g int) {
			defer wg.Done()
			r := rand.New(rand.NewSource(seeds[g]))
			b := bufs[g]
			atomic.AddInt32(&ready, 1)
			for n := 0; atomic.LoadInt32(&ready) < int32(G); n++ {
				if n%2000 == 1999 {
					runtime.Gosched()
				}
			}
			var mine []int64
			for k := 0; k < 40; k++ {
				mine = append(mine, ids[r.Intn(len(ids))])
			}
			if g%2 == 0 {
				doDatesRetained(b, l, mine)
			}
			for _, id := range mine {
				doID(b, l, id)
				if g%2 == 1 {
					doDate(b, l, id)
				}
				ob := id >> l.tshift()
				oe := ob + int64(r.Intn(5000))
				if oe > l.tsMax() {
					oe = l.tsMax()
				}
				doRange(b, r, l, ob, oe)
			}
		}(g)
	}
	wg.Wait()
	for _, b := range bufs {
		for _, e := range b.evs {
			w.Emit(e)
		}
	}
}

// installLayout makes l the layout in force, through the hook or through the public Setup on top of
// the package defaults (only epochs UseEpoch can express), and returns the event describing it.
func installLayout(l layout, viaSetup bool, ev string) tr.E {
	viaSetup = viaSetup && l.epoch < nsEnd
	if viaSetup {
		snowflake.VerifSetConfig(1609430400000, 10, false)
		opts := []snowflake.Option{snowflake.UseEpoch(time.UnixMilli(l.epoch)), snowflake.UseNodeMode(snowflake.NodeBitsMode(l.nb))}
		if l.low {
			opts = append(opts, snowflake.NodeAtLowest())
		}
		snowflake.Setup(opts...)
	} else {
		snowflake.VerifSetConfig(l.epoch, l.nb, l.low)
	}
	return tr.E{"ev": ev, "nb": int(l.nb), "low": l.low, "epoch": limbs(l.epoch), "grp": "switch", "setup": viaSetup}
}

// doSwitching: the SAME inputs - the same instants (hence the same date-form seconds and the same
// time ranges) and the same low bits - are pushed through consecutive layouts back to back:
// layout A, call; layout B, same call; back to A; ... with nothing else in between.  Every result
// must be the one of the layout in force, so anything the package remembers from an earlier call
// must not survive a change of epoch, node width or node placement.  One trace per history; layout
// changes inside it are `layout` events.
func doSwitching(w sink, rng *rand.Rand, hist int) {
	restore := snowflake.VerifSetConfig(1609430400000, 10, false)
	defer restore()
	eps := []int64{ms(2000, 1, 1, 0, 0, 0, 0, time.UTC), 1609430400000, ms(2024, 2, 29, 23, 59, 59, 777, time.UTC),
		ms(2010, 5, 5, 5, 5, 5, 0, shanghai), time.Now().UnixNano() / 1000000}
	for h := 0; h < hist; h++ {
		// 2-4 layouts that differ in one or several of epoch / node width / placement
		base := layout{eps[rng.Intn(len(eps))], []uint8{10, 9, 8}[rng.Intn(3)], rng.Intn(2) == 0}
		ls := []layout{base}
		for k := 1 + rng.Intn(3); k > 0; k-- {
			l := ls[rng.Intn(len(ls))]
			switch rng.Intn(4) {
			case 0:
				l.epoch = eps[rng.Intn(len(eps))]
			case 1:
				l.nb = []uint8{10, 9, 8}[rng.Intn(3)]
			case 2:
				l.low = !l.low
			default:
				l = layout{eps[rng.Intn(len(eps))], []uint8{10, 9, 8}[rng.Intn(3)], rng.Intn(2) == 0}
			}
			ls = append(ls, l)
		}
		// instants every one of these layouts can express (all epochs lie before 2027, 41 bits = 69 years)
		var abss []int64
		for k := 0; k < 1+rng.Intn(3); k++ {
			abss = append(abss, ms(2027+rng.Intn(40), time.Month(1+rng.Intn(12)), 1+rng.Intn(28), rng.Intn(24),
				rng.Intn(60), rng.Intn(60), rng.Intn(1000), shanghai))
		}
		lowbits := rng.Int63n(1 << 20)
		what := rng.Intn(5) // which function family this history hammers (4: all of them)
		cur := -1
		for step := 0; step < 6+rng.Intn(10); step++ {
			// next layout: usually another one; sometimes the same one installed again
			nxt := rng.Intn(len(ls))
			if nxt == cur && rng.Intn(3) > 0 {
				nxt = (nxt + 1) % len(ls)
			}
			cur = nxt
			l := ls[cur]
			ev := "layout"
			if step == 0 {
				ev = "reset"
			}
			w.Emit(installLayout(l, rng.Intn(2) == 0, ev))
			abs := abss[rng.Intn(len(abss))]
			if rng.Intn(4) == 0 { // another millisecond of the same second
				abs = abs - abs%1000 + int64(rng.Intn(1000))
			}
			id := (abs-l.epoch)<<l.tshift() | lowbits&l.lowMax()
			if what == 0 || what == 4 {
				doDate(w, l, id)
			}
			if what == 1 || what == 4 {
				doID(w, l, id)
				doPair(w, id, id+1+rng.Int63n(1<<12))
			}
			if what == 2 || what == 4 {
				doRangeAt(w, instantIn(rng, abs, zones[rng.Intn(len(zones))]), instantIn(rng, abs+int64(rng.Intn(3000)), zones[rng.Intn(len(zones))]))
			}
			if what == 3 { // the date form produced under one layout, decoded right after the change back
				doDatesRetained(w, l, []int64{id, id + 1})
			}
		}
	}
}

func main() {
	out := flag.String("out", "codec.ndjson", "trace file")
	seed := flag.Int64("seed", 1, "seed")
	nts := flag.Int("nts", 40, "random timestamps per layout (in addition to the boundary set)")
	nraw := flag.Int("raw", 60, "raw random ids per layout")
	npair := flag.Int("pairs", 150, "random pairs per layout")
	nrange := flag.Int("ranges", 120, "intervals per layout")
	nep := flag.Int("epochs", 3, "epochs per layout")
	nswitch := flag.Int("switch", 400, "histories that push the same inputs through changing layouts")
	flag.Parse()
	rng := rand.New(rand.NewSource(*seed))
	w := tr.Create(*out)
	w.NoSync = true
	go watchdog(w)
	nlay := 0
	for _, nb := range []uint8{10, 9, 8} {
		for _, low := range []bool{false, true} {
			eps := epochs(rng)
			rng.Shuffle(len(eps), func(i, j int) { eps[i], eps[j] = eps[j], eps[i] })
			if *nep < len(eps) {
				// always keep the two ends of the property's epoch range in play
				eps = append(eps[:*nep-1], []int64{ms(2000, 1, 1, 0, 0, 0, 0, time.UTC), 1609430400000,
					ms(2100, 6, 1, 12, 0, 0, 1, time.UTC), ms(2500, 7, 4, 3, 2, 1, 500, time.UTC),
					ms(9000, 1, 1, 0, 0, 0, 0, time.UTC)}[nlay%5])
			}
			for _, ep := range eps {
				l := layout{ep, nb, low}
				restore := snowflake.VerifSetConfig(l.epoch, l.nb, l.low)
				viaSetup := nlay%2 == 1 && ep < nsEnd
				if viaSetup {
					// the public path: Setup(options...) on top of the package defaults (UseEpoch goes
					// through int64 nanoseconds, so only epochs it can express take it)
					snowflake.VerifSetConfig(1609430400000, 10, false)
					opts := []snowflake.Option{snowflake.UseEpoch(time.UnixMilli(ep)), snowflake.UseNodeMode(snowflake.NodeBitsMode(nb))}
					if low {
						opts = append(opts, snowflake.NodeAtLowest())
					}
					snowflake.Setup(opts...)
				}
				// one trace per function group, so that a rejection in one group does not hide the others
				reset := func(grp string) {
					w.Emit(tr.E{"ev": "reset", "nb": int(nb), "low": low, "epoch": limbs(ep), "grp": grp, "setup": viaSetup})
				}
				nlay++
				// ids = timestamp x low bits, plus raw ones
				var ids []int64
				lows := lowCandidates(rng, l)
				for _, ts := range tsCandidates(rng, l, *nts) {
					for k := 0; k < 3; k++ {
						ids = append(ids, ts<<l.tshift()|lows[rng.Intn(len(lows))])
					}
				}
				ids = append(ids, 0, 1, int64(^uint64(0)>>1), int64(^uint64(0)>>1)-1)
				for k := uint(0); k < 63; k += 1 + uint(rng.Intn(2)) {
					ids = append(ids, int64(1)<<k, int64(1)<<k-1)
				}
				for i := 0; i < *nraw; i++ {
					ids = append(ids, rng.Int63())
				}
				reset("fields")
				for _, id := range ids {
					doID(w, l, id)
				}
				reset("date")
				if nlay%2 == 0 {
					doDatesRetained(w, l, ids)
				} else {
					for _, id := range ids {
						doDate(w, l, id)
					}
				}
				// the pure functions called by several goroutines at once (released by a spin barrier),
				// each on its own ids and intervals: a result must not depend on what others compute
				reset("together")
				doTogether(w, rng, l, ids, 4+2*(nlay%3))
				reset("order")
				// pairs: neighbours in the sorted order, field-adjacent ids, random pairs
				sorted := append([]int64(nil), ids...)
				sort.Slice(sorted, func(i, j int) bool { return sorted[i] < sorted[j] })
				for i := 0; i+1 < len(sorted); i += 1 + rng.Intn(4) {
					doPair(w, sorted[i], sorted[i+1])
					doPair(w, sorted[i+1], sorted[i])
				}
				for i := 0; i < *npair; i++ {
					a := ids[rng.Intn(len(ids))]
					var b int64
					switch rng.Intn(6) {
					case 0:
						b = a
					case 1:
						b = a + 1
					case 2: // same timestamp, other low bits
						b = a&^l.lowMax() | lows[rng.Intn(len(lows))]
					case 3: // same low bits, neighbouring timestamp
						b = a + int64(1)<<l.tshift()
					case 4: // one bit flipped
						b = a ^ int64(1)<<uint(rng.Intn(63))
					default:
						b = ids[rng.Intn(len(ids))]
					}
					if b < 0 {
						b = a
					}
					doPair(w, a, b)
				}
				// intervals
				reset("range")
				cands := tsCandidates(rng, l, 10)
				for i := 0; i < *nrange; i++ {
					ob := cands[rng.Intn(len(cands))]
					var oe int64
					switch rng.Intn(6) {
					case 0:
						oe = ob
					case 1:
						oe = ob + int64(rng.Intn(1000))
					case 2:
						oe = ob + 1000 + int64(rng.Intn(5000))
					case 3:
						oe = ob + 86400000*int64(1+rng.Intn(400))
					case 4:
						oe = l.tsMax() - int64(rng.Intn(2000))
					default:
						oe = cands[rng.Intn(len(cands))]
					}
					if oe > l.tsMax() {
						oe = l.tsMax()
					}
					if oe < ob {
						ob, oe = oe, ob
					}
					doRange(w, rng, l, ob, oe)
				}
				// intervals with an endpoint in or around a daylight-saving transition, expressed in the
				// location that has the transition (and, as a control, in another zone)
				dst := dstInstants(rng, l.epoch, l.epoch+l.tsMax())
				for i := 0; i < *nrange/2 && len(dst) > 0; i++ {
					z := dst[rng.Intn(len(dst))]
					loc := z.loc
					if rng.Intn(8) == 0 {
						loc = zones[rng.Intn(len(zones))]
					}
					var other int64
					switch rng.Intn(6) {
					case 0:
						other = z.abs
					case 1:
						other = z.abs + int64(rng.Intn(600000)) - 300000
					case 2:
						other = z.abs + int64(rng.Intn(4*3600000)) - 2*3600000
					case 3:
						other = dst[rng.Intn(len(dst))].abs
					case 4:
						other = z.abs + 86400000*int64(rng.Intn(300)-150)
					default:
						other = z.abs + []int64{1800000, 3600000, -1800000, -3600000}[rng.Intn(4)]
					}
					if other < l.epoch {
						other = l.epoch
					}
					if other > l.epoch+l.tsMax() {
						other = l.epoch + l.tsMax()
					}
					oloc := loc
					if rng.Intn(3) == 0 {
						oloc = zones[rng.Intn(len(zones))]
					}
					a, b := instantIn(rng, z.abs, loc), instantIn(rng, other, oloc)
					if b.Before(a) {
						a, b = b, a
					}
					doRangeAt(w, a, b)
				}
				restore()
			}
		}
	}
	doSwitching(w, rng, *nswitch)
	w.Close()
	fmt.Printf("events=%d layouts=%d switching=%d\n", w.N(), nlay, *nswitch)
}
