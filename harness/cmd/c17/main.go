// c17: shard routing.  Records
//   - routing observations of the real remap package (SearchIndex / XHashIndex / SimpleIndex) for
//     every supported key type, boundary-biased hashes and keys, many shard counts  -> -out
//   - call-by-call histories (TLC plans + seeded random ones) of cache.Map, cache.WideMap,
//     cache.WideXHashMap and the wide LRU facades (capacity out of reach)              -> -maps
// as ndjson for validation by TLC (specs/shard/Shard_Trace.tla).  The harness judges nothing.
package main

import (
	"bufio"
	"encoding/json"
	"flag"
	"fmt"
	"math"
	"math/rand"
	"os"
	"path/filepath"
	"runtime"
	"sort"
	"sync"
	"sync/atomic"
	"time"

	"github.com/pinealctx/neptune/cache"
	"github.com/pinealctx/neptune/cache/tiny"
	"github.com/pinealctx/neptune/remap"

	"verif/harness/internal/tr"
)

// ---------------------------------------------------------------- key types of the test

type hitKey struct{ H uint64 } // remap.HitGroup only

func (h hitKey) Hit() uint64 { return h.H }

type bsKey struct{ S string } // remap.Bs only

func (b bsKey) ToBytes() []byte { return []byte(b.S) }

type bothKey struct { // HitGroup and Bs: SimpleIndex uses Hit, XHashIndex uses ToBytes
	H uint64
	S string
}

func (b bothKey) Hit() uint64     { return b.H }
func (b bothKey) ToBytes() []byte { return []byte(b.S) }

// key is one concrete key together with how the trace names it.
type key struct {
	v    interface{} // the value handed to neptune
	t    string      // type tag
	id   []int       // identity under Go equality (with t): limbs, bytes, or limbs ++ bytes
	mod  bool        // SimpleIndex routes it by modulo (integer / HitGroup)
	u    uint64      // mod: the uint64 the modulo is taken of (sign-extended)
	neg  bool        // mod: the key is a negative integer
	hash bool        // XXHash supports it
	bs   []byte      // hash: what the hash route looks at
	cmp  bool        // usable as a Go map key
}

func intKey(t string, v interface{}, u uint64, neg bool) key {
	return key{v: v, t: t, id: tr.Limbs(u), mod: true, u: u, neg: neg, hash: true, cmp: true}
}

// mkInt casts the 64-bit pattern c to integer type number ty (0..9).
func mkInt(ty int, c uint64) key {
	switch ty {
	case 0:
		x := uint8(c)
		return intKey("u8", x, uint64(x), false)
	case 1:
		x := int8(c)
		return intKey("i8", x, uint64(x), x < 0)
	case 2:
		x := int16(c)
		return intKey("i16", x, uint64(x), x < 0)
	case 3:
		x := uint16(c)
		return intKey("u16", x, uint64(x), false)
	case 4:
		x := int32(c)
		return intKey("i32", x, uint64(x), x < 0)
	case 5:
		x := uint32(c)
		return intKey("u32", x, uint64(x), false)
	case 6:
		x := int64(c)
		return intKey("i64", x, uint64(x), x < 0)
	case 7:
		return intKey("u64", c, c, false)
	case 8:
		x := int(c)
		return intKey("int", x, uint64(x), x < 0)
	default:
		x := uint(c)
		return intKey("uint", x, uint64(x), false)
	}
}

func strKey(s string) key {
	return key{v: s, t: "str", id: tr.Str(s), hash: true, bs: []byte(s), cmp: true}
}
func bytesKey(b []byte) key { // not comparable: routing only
	return key{v: b, t: "bytes", id: tr.Ints(b), hash: true, bs: b}
}
func mkBs(s string) key {
	return key{v: bsKey{s}, t: "bs", id: tr.Str(s), hash: true, bs: []byte(s), cmp: true}
}
func mkHit(h uint64) key {
	return key{v: hitKey{h}, t: "hit", id: tr.Limbs(h), mod: true, u: h, cmp: true}
}
func mkBoth(h uint64, s string) key {
	return key{v: bothKey{h, s}, t: "both", id: append(tr.Limbs(h), tr.Str(s)...), mod: true, u: h,
		hash: true, bs: []byte(s), cmp: true}
}

// genKey: a string / []byte / Bs key of n bytes whose content is a fixed function of (n, fill); the
// trace names it by (n, fill) instead of spelling thousands of bytes out (type tags of their own).
func genKey(form, n, fill int) key {
	b := make([]byte, n)
	for i := range b {
		b[i] = byte(fill + i*7)
	}
	id := []int{n, fill}
	switch form {
	case 0:
		return key{v: string(b), t: "strgen", id: id, hash: true, bs: b, cmp: true}
	case 1:
		return key{v: b, t: "bytesgen", id: id, hash: true, bs: b}
	}
	return key{v: bsKey{string(b)}, t: "bsgen", id: id, hash: true, bs: b, cmp: true}
}

// lengths k*2^j and +-1 around the block sizes on the hash route: ToBytes widths 1/2/4/8, xxhash's
// 4/8/16-byte tails and 32-byte stripes, and the usual buffer sizes above
func blockLens() []int {
	var ls []int
	for _, p := range []int{4, 8, 16, 32, 64, 96, 128, 256, 1024, 4096} {
		ls = append(ls, p-1, p, p+1)
	}
	return ls
}

// the key as the spec's record [t, b]: type tag + identity under Go equality
func (k key) routeRec(op string) tr.E { return tr.E{"t": k.t, "b": k.id} }

func (k key) mapRec() tr.E { return tr.E{"t": k.t, "b": k.id} }

// ---------------------------------------------------------------- watchdog
// A call into the code under test that never returns (a leaked lock, a spin) is an observation, not a
// harness failure: every call ticks `progress`; when nothing ticked for `stallAfter` the watchdog
// writes a `stuck` event into the trace being written (the goroutine that owns the writer is the one
// that hangs), flushes everything and ends the process normally.  The trace spec rejects `stuck`.
// (The sleeping watchdog also keeps Go's "all goroutines are asleep" detector from ending the run.)
var (
	progress   int64
	curW       atomic.Value // *tr.W being written
	allW       []*tr.W
	pendReset  atomic.Value // tr.E: reset event of a round whose events are not written yet
	stallAfter = 20 * time.Second
)

func tick() { atomic.AddInt64(&progress, 1) }

func openTrace(path string) *tr.W {
	w := tr.Create(path)
	allW = append(allW, w)
	curW.Store(w)
	return w
}

func watchdog() {
	last, since := int64(-1), time.Now()
	for {
		time.Sleep(250 * time.Millisecond)
		p := atomic.LoadInt64(&progress)
		if p != last {
			last, since = p, time.Now()
			continue
		}
		if time.Since(since) < stallAfter {
			continue
		}
		if w, ok := curW.Load().(*tr.W); ok && w != nil {
			if e, ok := pendReset.Load().(tr.E); ok && e != nil {
				w.Emit(e)
			}
			w.Emit(tr.E{"ev": "stuck", "note": "a call into the code under test did not return"})
		}
		for _, w := range allW {
			w.Close()
		}
		fmt.Println("stuck=1")
		os.Exit(0)
	}
}

// ---------------------------------------------------------------- routing observations

const panicIdx = -1000000

func clampIdx(i int) int {
	if i > math.MaxInt32 || i < math.MinInt32 {
		return -2000000000
	}
	return i
}

// index calls f and turns a panic into an index no contract accepts.
func index(f func() int) (i int, note string) {
	defer func() {
		if p := recover(); p != nil {
			i, note = panicIdx, fmt.Sprintf("panic: %v", p)
		}
	}()
	return clampIdx(f()), ""
}

func hashOf(k key) (h uint64, ok bool) {
	defer func() {
		if recover() != nil {
			ok = false
		}
	}()
	return remap.XXHash(k.v), true
}

type router struct {
	w       *tr.W
	n       int
	rm      *remap.ReMap
	rng     *rand.Rand
	events  int
	scratch []byte // one input buffer reused across calls, as a caller decoding from a stream would
}

// reuse hands every other []byte key over inside the shared scratch buffer (spare capacity behind it)
func (r *router) reuse(k key) key {
	b, ok := k.v.([]byte)
	if !ok || b == nil || r.rng.Intn(2) == 0 {
		return k
	}
	if r.scratch == nil {
		r.scratch = make([]byte, 10000)
	}
	if len(b) > len(r.scratch)/2 {
		return k
	}
	buf := r.scratch[:len(b)]
	copy(buf, b)
	k.v = buf
	return k
}

// newReMap builds a router; n = 0 means "no option" (the default prime).  A panic in the constructor
// is an observation: the caller logs it (numbs = -1 in the reset event, which the spec rejects).
func newReMap(n int) (rm *remap.ReMap, numbs int, note string) {
	defer func() {
		if p := recover(); p != nil {
			rm, numbs, note = nil, -1, fmt.Sprintf("panic in NewReMap: %v", p)
		}
	}()
	if n == 0 {
		rm = remap.NewReMap()
	} else {
		rm = remap.NewReMap(remap.WithPrime(uint64(n)))
	}
	return rm, clampIdx(int(rm.Numbs())), ""
}

func (r *router) inst() *remap.ReMap {
	// stability also across instances of the same shard count
	if r.rng.Intn(4) == 0 {
		if rm, _, _ := newReMap(r.n); rm != nil {
			return rm
		}
	}
	return r.rm
}

func idxEvent(op string, krec tr.E, h uint64, i int, inmut bool, note string) tr.E {
	e := tr.E{"ev": "idx", "a": tr.E{"op": op, "k": krec, "h": tr.Limbs(h)}, "r": i, "inmut": inmut}
	if note != "" {
		e["note"] = note
	}
	return e
}

// guardInput keeps a private copy of a []byte key; the returned function tells whether the slice the
// harness handed to the router still holds what it held (routing has no business writing to it).
func guardInput(k key) func() bool {
	b, ok := k.v.([]byte)
	if !ok {
		return func() bool { return true }
	}
	cp := append([]byte{}, b...)
	return func() bool {
		if len(b) != len(cp) {
			return false
		}
		for i := range b {
			if b[i] != cp[i] {
				return false
			}
		}
		return true
	}
}

func (r *router) emit(op string, krec tr.E, h uint64, i int, inmut bool, note string) {
	tick()
	e := tr.E{"ev": "idx", "a": tr.E{"op": op, "k": krec, "h": tr.Limbs(h)}, "r": i, "inmut": inmut}
	if note != "" {
		e["note"] = note
	}
	r.w.Emit(e)
	r.events++
}

func (r *router) search(x uint64) {
	rm := r.inst()
	i, note := index(func() int { return rm.SearchIndex(x) })
	r.emit("search", tr.E{"t": "hash", "b": tr.Limbs(x)}, x, i, true, note)
}

func (r *router) simple(k key) {
	rm := r.inst()
	k = r.reuse(k)
	same := guardInput(k)
	var h uint64
	if k.mod {
		h = k.u
	} else {
		var ok bool
		if h, ok = hashOf(k); !ok {
			// every key the harness draws is of a type the routing is documented to take: a panic
			// here is an observation of the code under test, not a harness fault
			r.emit("simple", k.routeRec("simple"), 0, panicIdx, true, "panic in XXHash")
			return
		}
	}
	i, note := index(func() int { return rm.SimpleIndex(k.v) })
	r.emit("simple", k.routeRec("simple"), h, i, same(), note)
}

func (r *router) xhash(k key) {
	if !k.hash {
		return // HitGroup-only keys are not supported by the hash route
	}
	rm := r.inst()
	k = r.reuse(k)
	same := guardInput(k)
	h, ok := hashOf(k)
	if !ok {
		r.emit("xhash", k.routeRec("xhash"), 0, panicIdx, true, "panic in XXHash")
		return
	}
	i, note := index(func() int { return rm.XHashIndex(k.v) })
	r.emit("xhash", k.routeRec("xhash"), h, i, same(), note)
}

// boundary-biased 64-bit patterns for n shards
func patterns(rng *rand.Rand, n, nrand int) []uint64 {
	N := uint64(n)
	y := uint64(math.MaxUint64) / N
	ps := []uint64{0, 1, 2, math.MaxUint64, math.MaxUint64 - 1, 1 << 63, 1<<63 - 1, 1<<63 + 1,
		1 << 32, 1<<32 - 1, 1 << 31, 1<<31 - 1, 1 << 16, 1<<16 - 1, 1 << 15, 1 << 8, 1 << 7, 127, 255,
		N, N - 1, N + 1, 2 * N, 2*N - 1, -N, -N + 1, -N - 1, ^uint64(0) / 2,
		y * N, y*N - 1, y*N + 1, y, y - 1, y + 1}
	// around boundaries of the ideal equal partition: first, last, middle, a few random ones
	bi := []uint64{0, 1, N / 2, N - 2, N - 1}
	for j := 0; j < 6; j++ {
		bi = append(bi, uint64(rng.Int63n(int64(N))))
	}
	for _, i := range bi {
		if i >= N {
			continue
		}
		b := y * (i + 1)
		ps = append(ps, b-1, b, b+1)
	}
	for j := 0; j < 64; j += 7 {
		ps = append(ps, uint64(1)<<uint(j), uint64(1)<<uint(j)-1, ^(uint64(1) << uint(j)))
	}
	for j := 0; j < nrand; j++ {
		switch rng.Intn(4) {
		case 0:
			ps = append(ps, rng.Uint64()>>uint(rng.Intn(64)))
		case 1:
			ps = append(ps, -(rng.Uint64() >> uint(rng.Intn(64))))
		case 2:
			ps = append(ps, uint64(rng.Int63n(int64(4*N)+1)))
		default:
			ps = append(ps, rng.Uint64())
		}
	}
	return ps
}

func randBytes(rng *rand.Rand, n int) []byte {
	b := make([]byte, n)
	rng.Read(b)
	return b
}

func routeTrace(w *tr.W, rng *rand.Rand, n, nrand int, src string) int {
	rm, numbs, cnote := newReMap(n) // n = 0: no option
	if n == 0 {
		n = int(remap.DefaultPrime)
	}
	r := &router{w: w, n: n, rm: rm, rng: rng}
	w.Emit(tr.E{"ev": "reset", "kind": "route", "threads": 1, "shards": n, "numbs": numbs, "src": src, "note": cnote})
	if rm == nil {
		return 0
	}

	type job func()
	var jobs []job
	ps := patterns(rng, n, nrand)
	for _, p := range ps {
		p := p
		jobs = append(jobs, func() { r.search(p) })
	}
	// integer keys of every width: each pattern cast to two of the ten types (all ten over the run),
	// both routes
	for i, p := range ps {
		for d := 0; d < 2; d++ {
			k := mkInt((i+5*d)%10, p)
			jobs = append(jobs, func() { r.simple(k) })
			if (i+d)%3 == 0 {
				jobs = append(jobs, func() { r.xhash(k) })
			}
		}
	}
	// the same small values in every integer type (distinct keys, same residue)
	for ty := 0; ty < 10; ty++ {
		for _, c := range []uint64{0, 1, uint64(n), ^uint64(0), -uint64(n), 1 << 7, 1 << 15, 1 << 31, 1 << 63} {
			k := mkInt(ty, c)
			jobs = append(jobs, func() { r.simple(k) }, func() { r.xhash(k) })
		}
	}
	// HitGroup / Bs implementers
	for i, p := range ps {
		if i%4 == 0 {
			k := mkHit(p)
			jobs = append(jobs, func() { r.simple(k) })
		}
		if i%9 == 0 {
			k := mkBoth(p, fmt.Sprintf("s%d", i%5))
			jobs = append(jobs, func() { r.simple(k) }, func() { r.xhash(k) })
		}
	}
	// strings, byte slices, Bs: empty, short, long, binary; equal contents in all three forms
	var blobs [][]byte
	blobs = append(blobs, []byte{}, []byte("a"), []byte("key"), []byte{0}, []byte{0, 0}, []byte{255},
		[]byte("0123456789abcdef0123456789abcdef"), // 32 bytes: xxhash block boundary
		[]byte("0123456789abcdef0123456789abcde"), []byte("0123456789abcdef0123456789abcdef0"))
	for i := 0; i < nrand/3+8; i++ {
		switch rng.Intn(3) {
		case 0:
			blobs = append(blobs, []byte(fmt.Sprintf("user:%d", rng.Intn(100000))))
		case 1:
			blobs = append(blobs, randBytes(rng, rng.Intn(70)))
		default:
			blobs = append(blobs, randBytes(rng, 1+rng.Intn(8)))
		}
	}
	for i, b := range blobs {
		ks := []key{strKey(string(b)), bytesKey(b), mkBs(string(b))}
		for j, k := range ks {
			k := k
			if (i+j)%2 == 0 {
				jobs = append(jobs, func() { r.simple(k) })
			} else {
				jobs = append(jobs, func() { r.xhash(k) })
			}
			if i < 9 {
				jobs = append(jobs, func() { r.simple(k) }, func() { r.xhash(k) })
			}
		}
	}
	// lengths around internal block sizes (every third routing trace, forms rotating)
	if r.n%3 == 1 || src == "default" {
		for i, l := range blockLens() {
			k := genKey((i+r.n)%3, l, 1+rng.Intn(200))
			jobs = append(jobs, func() { r.xhash(k) }, func() { r.simple(k) })
		}
	}
	// nil byte slice is a supported []byte
	jobs = append(jobs, func() { r.xhash(bytesKey(nil)) }, func() { r.simple(bytesKey(nil)) })
	// ask half of everything a second time, then shuffle the lot
	m := len(jobs)
	for i := 0; i < m/2; i++ {
		jobs = append(jobs, jobs[rng.Intn(m)])
	}
	rng.Shuffle(len(jobs), func(i, j int) { jobs[i], jobs[j] = jobs[j], jobs[i] })
	for _, j := range jobs {
		j()
	}
	return r.events
}

// ---------------------------------------------------------------- containers

type act struct {
	Op string `json:"op"`
	K  int    `json:"k"`
	V  int    `json:"v"`
	N  int    `json:"n"`
}

// ---------------------------------------------------------------- values
// The containers take interface{} values (the LRU facades: anything with Size()); the kind of value is
// a dimension like the kind of key: comparable and uncomparable dynamic types, nil.  A value is made
// from a value id and a kind; what a Get returns is decoded back (dynamic type -> kind, content ->
// id).  The trace carries both in one number, id*16 + kind code, so the plain map of the spec also
// says which KIND must come back.
type vStruct struct{ ID int }
type vDeep struct { // a struct that holds a slice: not comparable either
	ID int
	L  []int
}

const nMapKinds = 10

func mkVal(kind, id int) (interface{}, int) {
	switch kind {
	case 1:
		return id, id*16 + 1
	case 2:
		return fmt.Sprint(id), id*16 + 2
	case 3:
		return vStruct{id}, id*16 + 3
	case 4:
		x := id
		return &x, id*16 + 4
	case 5:
		return []string{fmt.Sprint(id)}, id*16 + 5
	case 6:
		return map[string]int{"id": id}, id*16 + 6
	case 7:
		return func() int { return id }, id*16 + 7
	case 8:
		return nil, 8
	case 10:
		return (*int)(nil), 10 // a typed nil pointer is a value like any other (and is not == nil)
	}
	return vDeep{id, []int{id}}, id*16 + 9
}

func decVal(x interface{}) int {
	switch y := x.(type) {
	case nil:
		return 8
	case int:
		return y*16 + 1
	case string:
		var id int
		if _, err := fmt.Sscan(y, &id); err != nil {
			return -1
		}
		return id*16 + 2
	case vStruct:
		return y.ID*16 + 3
	case *int:
		if y == nil {
			return 10
		}
		return *y*16 + 4
	case []string:
		var id int
		if len(y) != 1 {
			return -1
		}
		if _, err := fmt.Sscan(y[0], &id); err != nil {
			return -1
		}
		return id*16 + 5
	case map[string]int:
		if len(y) != 1 {
			return -1
		}
		return y["id"]*16 + 6
	case func() int:
		return y()*16 + 7
	case vDeep:
		if len(y.L) != 1 || y.L[0] != y.ID {
			return -1
		}
		return y.ID*16 + 9
	}
	return -1 // something that was never stored
}

// values of the sized LRU: every kind of type that can carry a Size() method
type sv struct{ id int }
type svPtr struct{ id int }
type svSlice []int
type svMap map[string]int
type svFunc func() int

func (sv) Size() int      { return 1 }
func (*svPtr) Size() int  { return 1 }
func (svSlice) Size() int { return 1 }
func (svMap) Size() int   { return 1 }
func (svFunc) Size() int  { return 1 }

const nLRUKinds = 6

func mkLRUVal(kind, id int) (cache.Value, int) {
	switch kind {
	case 1:
		return sv{id}, id*16 + 1
	case 2:
		return &svPtr{id}, id*16 + 2
	case 3:
		return svSlice{id}, id*16 + 3
	case 4:
		return svMap{"id": id}, id*16 + 4
	case 6:
		return (*svPtr)(nil), 6
	}
	return svFunc(func() int { return id }), id*16 + 5
}

func decLRUVal(x cache.Value) int {
	switch y := x.(type) {
	case sv:
		return y.id*16 + 1
	case *svPtr:
		if y == nil {
			return 6
		}
		return y.id*16 + 2
	case svSlice:
		if len(y) != 1 {
			return -1
		}
		return y[0]*16 + 3
	case svMap:
		if len(y) != 1 {
			return -1
		}
		return y["id"]*16 + 4
	case svFunc:
		return y()*16 + 5
	}
	return -1
}

// which kind the value with id v has in this history
func (c conf) kindOf(v, nkinds int) int {
	k := (v*c.vmul + c.voff) % nkinds
	if c.vmul == 2 && c.sets != nil {
		k = (int(atomic.LoadInt64(c.sets)) + c.voff) % nkinds
	}
	if k < 0 {
		k += nkinds
	}
	return 1 + k
}

// store: set returns the number the trace carries for the stored value; get decodes what came back
type store interface {
	encOf(v int) int
	set(k interface{}, v int) int
	get(k interface{}, alt bool) (int, bool)
	exist(k interface{}) bool
	del(k interface{}) (existed bool, reports bool)
}

type mapStore struct {
	m cache.MapFacade
	c conf
}

func (s mapStore) encOf(v int) int { _, e := mkVal(s.c.kindOf(v, nMapKinds), v); return e }
func (s mapStore) set(k interface{}, v int) int {
	x, enc := mkVal(s.c.kindOf(v, nMapKinds), v)
	defer atomic.AddInt64(s.c.sets, 1)
	s.m.Set(k, x)
	return enc
}
func (s mapStore) get(k interface{}, alt bool) (int, bool) {
	v, ok := s.m.Get(k)
	if !ok {
		return 0, false
	}
	return decVal(v), true
}
func (s mapStore) exist(k interface{}) bool       { return s.m.Exist(k) }
func (s mapStore) del(k interface{}) (bool, bool) { s.m.Delete(k); return false, false }

type lruStore struct {
	c  cache.LRUFacade
	cf conf
}

func (s lruStore) encOf(v int) int { _, e := mkLRUVal(s.cf.kindOf(v, nLRUKinds), v); return e }
func (s lruStore) set(k interface{}, v int) int {
	x, enc := mkLRUVal(s.cf.kindOf(v, nLRUKinds), v)
	defer atomic.AddInt64(s.cf.sets, 1)
	s.c.Set(k, x)
	return enc
}
func (s lruStore) get(k interface{}, alt bool) (int, bool) {
	var v cache.Value
	var ok bool
	if alt {
		v, ok = s.c.Peek(k)
	} else {
		v, ok = s.c.Get(k)
	}
	if !ok {
		return 0, false
	}
	return decLRUVal(v), true
}
func (s lruStore) exist(k interface{}) bool       { return s.c.Exist(k) }
func (s lruStore) del(k interface{}) (bool, bool) { return s.c.Delete(k), true }

type tinyStore struct {
	c  tiny.LRU
	cf conf
}

func (s tinyStore) encOf(v int) int { _, e := mkVal(s.cf.kindOf(v, nMapKinds), v); return e }
func (s tinyStore) set(k interface{}, v int) int {
	x, enc := mkVal(s.cf.kindOf(v, nMapKinds), v)
	defer atomic.AddInt64(s.cf.sets, 1)
	s.c.Set(k, x)
	return enc
}
func (s tinyStore) get(k interface{}, alt bool) (int, bool) {
	var v interface{}
	var ok bool
	if alt {
		v, ok = s.c.Peek(k)
	} else {
		v, ok = s.c.Get(k)
	}
	if !ok {
		return 0, false
	}
	return decVal(v), true
}
func (s tinyStore) exist(k interface{}) bool       { return s.c.Exist(k) }
func (s tinyStore) del(k interface{}) (bool, bool) { return s.c.Delete(k), true }

const farCap = int64(1) << 40 // per-shard capacity no history can reach

var variants = []string{"single", "wide", "widex", "lru", "lrux", "tiny", "tinyx"}

func isX(variant string) bool { return variant == "widex" || variant == "lrux" || variant == "tinyx" }

// conf is one configuration of a container: every constructor argument is a dimension.
type conf struct {
	variant string
	n       int   // shard count; 0 = no remap option at all (the default prime)
	capa    int64 // LRU facades: total capacity
	vmul    int   // kind of the value stored for value id v: kinds[(v*vmul + voff) % len(kinds)]
	voff    int   //   vmul = 0: one kind throughout the history, 1: kinds mixed by value id,
	//   2: the kind moves on with every Set (sequential histories): one id under many kinds
	sets *int64
}

func (c conf) shards() int {
	if c.n == 0 {
		return int(remap.DefaultPrime)
	}
	return c.n
}

// capTag names the capacity in the trace (TLC cannot hold the big ones)
func (c conf) capTag() string {
	switch {
	case c.variant == "single" || c.variant == "wide" || c.variant == "widex":
		return "none"
	case c.capa == farCap:
		return "far"
	case c.capa == math.MaxInt64:
		return "maxint64"
	case c.capa == math.MaxInt64-1:
		return "maxint64-1"
	}
	return fmt.Sprint(c.capa)
}

// room: how many distinct keys a history may use so that no shard can ever be full, wherever the keys
// are routed: the wide LRUs give every shard capacity/shards + 1 (documented in their constructors;
// the same figure C04 holds them to), entries count 1 each.
func (c conf) room() int64 {
	if c.capTag() == "none" {
		return math.MaxInt32
	}
	r := c.capa / int64(c.shards())
	if r < math.MaxInt32 {
		r++
	}
	return r
}

func (c conf) reset(kind, src string, threads, scheme int) tr.E {
	return tr.E{"ev": "reset", "kind": kind, "threads": threads, "variant": c.variant, "shards": c.shards(),
		"numbs": c.shards(), "defaultopt": c.n == 0, "cap": c.capTag(), "scheme": scheme, "src": src, "vmul": c.vmul, "voff": c.voff}
}

// newStoreC builds the container; a panic in a constructor is an observation (nil store + note).
func newStoreC(c conf) (s store, note string) {
	defer func() {
		if p := recover(); p != nil {
			s, note = nil, fmt.Sprintf("panic in constructor: %v", p)
		}
	}()
	var opts []remap.Option
	if c.n != 0 {
		opts = append(opts, remap.WithPrime(uint64(c.n)))
	}
	c.sets = new(int64)
	switch c.variant {
	case "single":
		return mapStore{cache.NewSingleMap(), c}, ""
	case "wide":
		return mapStore{cache.NewWideMap(opts...), c}, ""
	case "widex":
		return mapStore{cache.NewWideXHashMap(opts...), c}, ""
	case "lru":
		return lruStore{cache.NeWideLRUCache(c.capa, opts...), c}, ""
	case "lrux":
		return lruStore{cache.NewWideXHashLRUCache(c.capa, opts...), c}, ""
	case "tiny":
		return tinyStore{tiny.NeWideLRU(c.capa, opts...), c}, ""
	case "tinyx":
		return tinyStore{tiny.NewWideXHashLRU(c.capa, opts...), c}, ""
	}
	tr.Fatal("variant %q", c.variant)
	return nil, ""
}

// open emits the reset event of a history and builds its container; when the constructor panics the
// trace gets a `panic` event (which no spec action explains) and the history is over.
func open(w *tr.W, c conf, kind, src string, threads, scheme int) store {
	w.Emit(c.reset(kind, src, threads, scheme))
	s, note := newStoreC(c)
	if s == nil {
		w.Emit(tr.E{"ev": "panic", "where": "constructor", "note": note})
	}
	return s
}

// one call; a panic becomes a reply no map gives (v = -1)
func call(s store, op string, k key, v int, alt bool) (rec tr.E, r tr.E) {
	tick()
	a := tr.E{"op": op, "k": k.mapRec()}
	defer func() {
		if p := recover(); p != nil {
			rec, r = a, tr.E{"ok": false, "v": -1, "panic": fmt.Sprintf("%v", p)}
		}
	}()
	switch op {
	case "set":
		a["v"] = s.encOf(v)
		s.set(k.v, v)
		return a, tr.E{"ok": true, "v": 0}
	case "get":
		x, ok := s.get(k.v, alt)
		return a, tr.E{"ok": ok, "v": x}
	case "exist":
		return a, tr.E{"ok": s.exist(k.v), "v": 0}
	case "del", "delr":
		ex, reports := s.del(k.v)
		if reports {
			a["op"] = "delr"
			return a, tr.E{"ok": ex, "v": 0}
		}
		a["op"] = "del"
		return a, tr.E{"ok": true, "v": 0}
	}
	tr.Fatal("op %q", op)
	return nil, nil
}

// concrete keys for the abstract keys 1..6 of a plan
const nSchemes = 11

func schemeKey(scheme, j, n int, x bool) key {
	N := uint64(n)
	J := uint64(j)
	switch scheme {
	case 0:
		return mkInt(8, J)
	case 1: // all in shard 0 of the modulo route
		return mkInt(8, J*N)
	case 2:
		return mkInt(6, -J)
	case 3:
		return strKey(fmt.Sprintf("k%d", j))
	case 4: // one value, six types: six keys
		return mkInt([]int{1, 2, 4, 6, 0, 9}[(j-1)%6], 1)
	case 5: // extremes
		switch (j - 1) % 6 {
		case 0:
			return mkInt(6, 1<<63)
		case 1:
			return mkInt(6, 1<<63-1)
		case 2:
			return mkInt(7, math.MaxUint64)
		case 3:
			return mkInt(4, 1<<31)
		case 4:
			return mkInt(1, 0xff)
		}
		return mkInt(8, -N)
	case 6: // HitGroup, all in one shard (hash route does not support it: use both)
		if x {
			return mkBoth(J*N, fmt.Sprintf("h%d", j))
		}
		return mkHit(J*N + 3)
	case 7:
		return mkBoth(7, fmt.Sprintf("s%d", j))
	case 8:
		return mkBs(fmt.Sprintf("b%d", j))
	case 10: // degenerate keys: empty string, empty Bs, zero of several kinds, one NUL byte
		switch (j - 1) % 6 {
		case 0:
			return strKey("")
		case 1:
			return mkBs("")
		case 2:
			return mkInt(8, 0)
		case 3:
			return mkInt(0, 0)
		case 4:
			return strKey("\x00")
		}
		if x {
			return mkBoth(0, "")
		}
		return mkHit(0)
	}
	// 9: one "1", six kinds of key
	switch (j - 1) % 6 {
	case 0:
		return strKey("1")
	case 1:
		return mkInt(8, 1)
	case 2:
		return mkBs("1")
	case 3:
		return mkInt(4, 1)
	case 4:
		return mkInt(7, 1)
	}
	return mkBoth(1, "1")
}

func runPlan(w *tr.W, src string, c conf, scheme int, acts []act) {
	s := open(w, c, "map", src, 1, scheme)
	if s == nil {
		return
	}
	room := c.room()
	for i, a := range acts {
		// a plan uses abstract keys 1..6; under a small capacity they are folded onto as many keys
		// as are certain to fit
		j := a.K
		if int64(j) > room {
			j = 1 + (j-1)%int(room)
		}
		k := schemeKey(scheme, j, c.shards(), isX(c.variant))
		rec, r := call(s, a.Op, k, a.V, i%2 == 1)
		w.Emit(tr.E{"ev": "call", "a": rec, "r": r})
	}
}

func randKey(rng *rand.Rand, n int, x bool) key {
	ps := patterns(rng, n, 2)
	p := ps[rng.Intn(len(ps))]
	switch c := rng.Intn(20); {
	case c < 10:
		return mkInt(rng.Intn(10), p)
	case c < 13:
		return strKey(fmt.Sprintf("user:%d", rng.Intn(50)))
	case c < 14:
		return strKey(string(randBytes(rng, rng.Intn(40))))
	case c < 16:
		return mkBs(fmt.Sprintf("%d", rng.Intn(50)))
	case c < 18:
		return mkBoth(p, fmt.Sprintf("%d", rng.Intn(4)))
	}
	if x {
		return mkInt(rng.Intn(10), uint64(rng.Intn(4*n+1)))
	}
	return mkHit(p)
}

func runRandom(w *tr.W, rng *rand.Rand, c conf, nops int) {
	s := open(w, c, "map", "rand", 1, -1)
	if s == nil {
		return
	}
	np := int64(3 + rng.Intn(30))
	if np > c.room() {
		np = c.room()
	}
	pool := make([]key, 0, np)
	seen := map[string]bool{}
	for tries := 0; int64(len(pool)) < np && tries < 200; tries++ {
		k := randKey(rng, c.shards(), isX(c.variant))
		id := fmt.Sprint(k.t, k.id)
		if !seen[id] { // distinct keys, so that the pool size is the number of entries at most
			seen[id] = true
			pool = append(pool, k)
		}
	}
	for i := 0; i < nops; i++ {
		k := pool[rng.Intn(len(pool))]
		op := []string{"set", "set", "set", "get", "get", "get", "exist", "exist", "del"}[rng.Intn(9)]
		rec, r := call(s, op, k, 1+rng.Intn(1000), rng.Intn(2) == 0)
		w.Emit(tr.E{"ev": "call", "a": rec, "r": r})
	}
}

// Race rounds: the sharded containers must answer as the unsharded map also for concurrent callers
// (cache.Map is safe for concurrent use).  Every round takes a FRESH container with 1..3 shards,
// releases 2..4 goroutines together by a spin barrier and lets each issue 1..3 calls on a handful of
// distinct keys (more keys than shards: several collide in one shard).  A global atomic sequence
// number is drawn before a call starts and after it returned, so the merged inv/res order is
// consistent with real time.  Only rounds in which calls really overlapped are kept (the others are
// sequential histories, covered elsewhere; dropping can only lose coverage).  Every round ends with
// a sequential Get + Exist probe of all keys of the round.  TLC infers the linearization.
// Returns (rounds run, rounds kept).
func runRaces(w *tr.W, rng *rand.Rand, rounds, keep int) (int, int) {
	ran, kept := 0, 0
	wide := []string{"wide", "widex", "lru", "lrux", "tiny", "tinyx"}
	schemes := []int{0, 3, 9, 2, 4, 8}
	for r := 0; r < rounds && kept < keep; r++ {
		ran++
		variant := wide[r%len(wide)]
		if r%4 < 2 { // the maps proper get half of all rounds
			variant = wide[r%2]
		}
		duel := r%5 == 2
		if duel { // a facade that reports whether it removed
			variant = wide[2+(r/5)%4]
		}
		c := conf{variant: variant, n: 1 + (r/2)%3, capa: farCap, vmul: (r / 6) % 2, voff: rng.Intn(nMapKinds * nLRUKinds)}
		threads := 2 + rng.Intn(3)
		scheme := schemes[rng.Intn(len(schemes))]
		nkeys := 2 + rng.Intn(3)
		if nkeys < threads {
			nkeys = threads
		}
		if duel {
			threads, nkeys = 2+rng.Intn(2), 4+rng.Intn(3)
		}
		switch r % 16 {
		case 5, 13:
			// no remap option at all (73 shards); on the modulo variants keys that are multiples of
			// the shard count still meet in one shard
			c.n = 0
			if !isX(variant) {
				scheme = 1
			}
		case 7, 15:
			// small total capacities, down to below the shard count: as many keys as surely fit
			if c.capTag() != "none" {
				c.capa = []int64{0, 1, int64(c.n) - 1, int64(c.n), 2*int64(c.n) + 1, math.MaxInt64 - 1}[rng.Intn(6)]
			}
		}
		if int64(nkeys) > c.room() {
			nkeys = int(c.room())
		}
		n := c.shards()
		pool := make([]key, nkeys)
		for j := range pool {
			pool[j] = schemeKey(scheme, j+1, n, isX(variant))
		}
		type step struct {
			op string
			k  key
			v  int
		}
		progs := make([][]step, threads)
		for t := range progs {
			cnt := 1 + rng.Intn(3)
			for i := 0; i < cnt; i++ {
				k := pool[t%nkeys] // mostly a key of its own: distinct keys meet in one shard
				if rng.Intn(4) == 0 {
					k = pool[rng.Intn(nkeys)]
				}
				op := "set"
				if i > 0 || rng.Intn(10) >= 7 {
					op = []string{"set", "set", "get", "exist", "del"}[rng.Intn(5)]
				}
				progs[t] = append(progs[t], step{op, k, 100*(t+1) + i})
			}
		}
		rst := c.reset("race", "race", threads, scheme)
		s, cnote := newStoreC(c)
		if s == nil {
			w.Emit(rst)
			w.Emit(tr.E{"ev": "panic", "where": "constructor", "note": cnote})
			kept++
			continue
		}
		// shape of the container the goroutines meet: never used (most rounds), emptied again by
		// removals, holding exactly one entry
		var pre []tr.E
		switch r % 5 {
		case 3:
			for j, k := range pool {
				rec, rep := call(s, "set", k, 900+j, false)
				pre = append(pre, tr.E{"ev": "call", "a": rec, "r": rep})
			}
			for _, k := range pool {
				rec, rep := call(s, "del", k, 0, false)
				pre = append(pre, tr.E{"ev": "call", "a": rec, "r": rep})
			}
		case 4:
			rec, rep := call(s, "set", pool[rng.Intn(len(pool))], 900, false)
			pre = append(pre, tr.E{"ev": "call", "a": rec, "r": rep})
		}
		if duel {
			// everybody sweeps the same present keys in the same order, removing them: of the callers
			// that go for one entry at one instant exactly one removed it
			pre = nil
			for j, k := range pool {
				rec, rep := call(s, "set", k, 900+j, false)
				pre = append(pre, tr.E{"ev": "call", "a": rec, "r": rep})
			}
			for t := range progs {
				progs[t] = nil
				for _, k := range pool {
					progs[t] = append(progs[t], step{"del", k, 0})
				}
			}
		}
		pendReset.Store(rst)
		type sev struct {
			seq int64
			e   tr.E
		}
		per := make([][]sev, threads)
		var seq int64
		var goFlag, readyCnt int32
		var wg sync.WaitGroup
		for t := 0; t < threads; t++ {
			wg.Add(1)
			go func(t int) {
				defer wg.Done()
				atomic.AddInt32(&readyCnt, 1)
				for atomic.LoadInt32(&goFlag) == 0 {
				}
				for i, st := range progs[t] {
					a := tr.E{"op": st.op, "k": st.k.mapRec()}
					if st.op == "set" {
						a["v"] = s.encOf(st.v)
					}
					if st.op == "del" && variant != "wide" && variant != "widex" {
						a["op"] = "delr" // the LRU facades report whether they removed
					}
					s0 := atomic.AddInt64(&seq, 1)
					_, rep := call(s, st.op, st.k, st.v, i%2 == 1)
					s1 := atomic.AddInt64(&seq, 1)
					per[t] = append(per[t], sev{s0, tr.E{"ev": "inv", "t": t + 1, "a": a}},
						sev{s1, tr.E{"ev": "res", "t": t + 1, "r": rep}})
				}
			}(t)
		}
		for atomic.LoadInt32(&readyCnt) < int32(threads) {
			runtime.Gosched()
		}
		atomic.StoreInt32(&goFlag, 1)
		wg.Wait() // a call that never returns is reported by the watchdog (reset + `stuck`)
		pendReset.Store(tr.E(nil))
		var all []sev
		for _, p := range per {
			all = append(all, p...)
		}
		sort.Slice(all, func(i, j int) bool { return all[i].seq < all[j].seq })
		open, overlap := 0, false
		for _, x := range all {
			if x.e["ev"] == "inv" {
				open++
				if open > 1 {
					overlap = true
				}
			} else {
				open--
			}
		}
		if !overlap {
			continue
		}
		kept++
		w.Emit(rst)
		for _, e := range pre {
			w.Emit(e)
		}
		for _, x := range all {
			w.Emit(x.e)
		}
		for j, k := range pool {
			rec, rep := call(s, "get", k, 0, j%2 == 1)
			w.Emit(tr.E{"ev": "call", "a": rec, "r": rep})
			rec, rep = call(s, "exist", k, 0, false)
			w.Emit(tr.E{"ev": "call", "a": rec, "r": rep})
		}
	}
	return ran, kept
}

// Cold-start routing rounds: a FRESH ReMap is first touched by 2..4 goroutines released together by a
// spin barrier; each asks the index of a handful of keys / hashes (the goroutines' lists overlap), all
// through the same instance.  Afterwards every question is asked once more sequentially, on the same
// instance and on another fresh one.  All answers are idx events of one trace: the routing contract
// (range, one index per key, order-compatible partition) does not care who asked or when, so an index
// that differs under contention or on first use is rejected like any other instability.  []byte keys
// are shared between the goroutines (read-only use of one buffer) and checked to be unchanged.
func routeRaces(w *tr.W, rng *rand.Rand, rounds int) int {
	type q struct {
		op string
		k  key
		x  uint64
	}
	nev := 0
	for r := 0; r < rounds; r++ {
		n := []int{1, 2, 3, 0, 73, 211, 4096}[r%7]
		rm, numbs, cnote := newReMap(n)
		if n == 0 {
			n = int(remap.DefaultPrime)
		}
		w.Emit(tr.E{"ev": "reset", "kind": "routerace", "threads": 1, "shards": n, "numbs": numbs, "src": "cold", "note": cnote})
		if rm == nil {
			continue
		}
		ps := patterns(rng, n, 4)
		var qs []q
		for i := 0; i < 5+rng.Intn(6); i++ {
			p := ps[rng.Intn(len(ps))]
			switch rng.Intn(6) {
			case 0:
				qs = append(qs, q{"search", key{}, p})
			case 1:
				qs = append(qs, q{"simple", mkInt(rng.Intn(10), p), 0})
			case 2:
				qs = append(qs, q{"xhash", mkInt(rng.Intn(10), p), 0})
			case 3:
				qs = append(qs, q{[]string{"simple", "xhash"}[rng.Intn(2)], bytesKey(randBytes(rng, rng.Intn(20))), 0})
			case 4:
				qs = append(qs, q{[]string{"simple", "xhash"}[rng.Intn(2)], strKey(fmt.Sprintf("user:%d", rng.Intn(1000))), 0})
			default:
				qs = append(qs, q{"simple", mkBoth(p, "b"), 0})
			}
		}
		ask := func(rm *remap.ReMap, x q) tr.E {
			tick()
			if x.op == "search" {
				i, note := index(func() int { return rm.SearchIndex(x.x) })
				return idxEvent("search", tr.E{"t": "hash", "b": tr.Limbs(x.x)}, x.x, i, true, note)
			}
			same := guardInput(x.k)
			var i int
			var note string
			if x.op == "simple" {
				i, note = index(func() int { return rm.SimpleIndex(x.k.v) })
			} else {
				i, note = index(func() int { return rm.XHashIndex(x.k.v) })
			}
			return idxEvent(x.op, x.k.routeRec(x.op), 0, i, same(), note)
		}
		threads := 2 + rng.Intn(3)
		lists := make([][]q, threads)
		for t := range lists {
			for _, x := range qs {
				if rng.Intn(3) > 0 {
					lists[t] = append(lists[t], x)
				}
			}
			rng.Shuffle(len(lists[t]), func(i, j int) { lists[t][i], lists[t][j] = lists[t][j], lists[t][i] })
		}
		out := make([][]tr.E, threads)
		var goFlag, readyCnt int32
		var wg sync.WaitGroup
		for t := 0; t < threads; t++ {
			wg.Add(1)
			go func(t int) {
				defer wg.Done()
				atomic.AddInt32(&readyCnt, 1)
				for atomic.LoadInt32(&goFlag) == 0 {
				}
				for _, x := range lists[t] {
					out[t] = append(out[t], ask(rm, x))
				}
			}(t)
		}
		for atomic.LoadInt32(&readyCnt) < int32(threads) {
			runtime.Gosched()
		}
		atomic.StoreInt32(&goFlag, 1)
		wg.Wait()
		for _, o := range out {
			for _, e := range o {
				w.Emit(e)
				nev++
			}
		}
		fresh, _, _ := newReMap(n)
		for _, x := range qs {
			w.Emit(ask(rm, x))
			nev++
			if fresh != nil {
				w.Emit(ask(fresh, x))
				nev++
			}
		}
	}
	return nev
}

// Capacity pressure: "apart from capacity being applied per shard" - a wide LRU of total capacity c
// over n shards gives every shard capacity c/n + 1 (its constructors say so), so the calls that reach
// one shard must be answered exactly as an unsharded LRU of that capacity answers them: who is evicted
// depends on the recency order, which only Set / Get refresh (not Peek, not Exist, not Delete of
// another key).  Small capacities and two keys more than fit per shard keep every shard at its limit.
// The calls are split by the shard the public remap index names (in range and stable: judged above)
// and written in the trace format of specs/lru/LRU_Trace.tla, the unsharded structure's specification.
type svs struct{ id, size int }

func (s svs) Size() int { return s.size }

func runPressure(w *tr.W, rng *rand.Rand, rounds int) {
	for r := 0; r < rounds; r++ {
		variant := []string{"lru", "lrux", "tiny", "tinyx"}[r%4]
		n := 1 + (r/4)%3
		capa := rng.Intn(3*n + 3)
		c := conf{variant: variant, n: n, capa: int64(capa)}
		s, cnote := newStoreC(c)
		sized := variant == "lru" || variant == "lrux"
		pcap := capa/n + 1
		hdr := func(shard int) tr.E {
			return tr.E{"ev": "reset", "cap": pcap, "sized": sized, "threads": 1, "src": "pressure-" + variant,
				"shard": shard, "shards": n, "total": capa, "keykind": 0}
		}
		if s == nil {
			w.Emit(hdr(0))
			w.Emit(tr.E{"ev": "panic", "where": "constructor", "note": cnote})
			continue
		}
		rm, _, _ := newReMap(n)
		if rm == nil {
			continue // reported by the routing traces
		}
		nkeys := (pcap+2)*n + rng.Intn(2)
		per := make([][]tr.E, n)
		for i := 0; i < 30*n+rng.Intn(20); i++ {
			tick()
			k := 1 + rng.Intn(nkeys)
			var kv interface{} = k
			if isX(variant) {
				if k%2 == 0 {
					kv = fmt.Sprintf("key-%d", k)
				} else {
					kv = int32(k)
				}
			}
			var sh int
			if isX(variant) {
				sh, _ = index(func() int { return rm.XHashIndex(kv) })
			} else {
				sh, _ = index(func() int { return rm.SimpleIndex(kv) })
			}
			op := []string{"set", "set", "set", "set", "exist", "exist", "exist", "peek", "peek", "get", "get", "del"}[rng.Intn(12)]
			a := tr.E{"op": op, "k": k}
			v, size := 1+rng.Intn(1000), 1
			if sized && rng.Intn(8) == 0 {
				size = rng.Intn(3)
			}
			if op == "set" {
				a["v"], a["s"] = v, size
			}
			e := tr.E{"ev": "callr", "a": a}
			func() {
				defer func() {
					if p := recover(); p != nil {
						e = tr.E{"ev": "panic", "a": a, "note": fmt.Sprintf("%v", p)}
					}
				}()
				hit := func(x interface{}, ok bool) tr.E {
					if !ok {
						return tr.E{"ok": false, "v": 0}
					}
					switch y := x.(type) {
					case svs:
						return tr.E{"ok": true, "v": y.id}
					case int:
						return tr.E{"ok": true, "v": y}
					}
					return tr.E{"ok": true, "v": -1} // a value that was never stored
				}
				switch st := s.(type) {
				case lruStore:
					switch op {
					case "set":
						st.c.Set(kv, svs{v, size})
						e["r"] = 0
					case "get":
						x, ok := st.c.Get(kv)
						e["r"] = hit(x, ok)
					case "peek":
						x, ok := st.c.Peek(kv)
						e["r"] = hit(x, ok)
					case "exist":
						e["r"] = st.c.Exist(kv)
					case "del":
						e["r"] = st.c.Delete(kv)
					}
				case tinyStore:
					switch op {
					case "set":
						st.c.Set(kv, v)
						e["r"] = 0
					case "get":
						x, ok := st.c.Get(kv)
						e["r"] = hit(x, ok)
					case "peek":
						x, ok := st.c.Peek(kv)
						e["r"] = hit(x, ok)
					case "exist":
						e["r"] = st.c.Exist(kv)
					case "del":
						e["r"] = st.c.Delete(kv)
					}
				}
			}()
			if sh < 0 || sh >= n {
				per[0] = append(per[0], tr.E{"ev": "badindex", "a": a, "n": n})
				continue
			}
			per[sh] = append(per[sh], e)
		}
		for sh := range per {
			if len(per[sh]) == 0 {
				continue
			}
			w.Emit(hdr(sh))
			for _, e := range per[sh] {
				w.Emit(e)
			}
		}
	}
}

// Long runs around integer widths: one idempotent call issued n times in a row (n around 2^8 and
// 2^16), logged as ONE run-length encoded event: first reply + whether all n replies were equal.
var runLens = []int{255, 256, 257, 65535, 65536, 65537}

func sameE(a, b tr.E) bool { return fmt.Sprint(a) == fmt.Sprint(b) }

func runLong(w *tr.W, rng *rand.Rand, c conf, lens []int) {
	s := open(w, c, "map", "longrun", 1, 0)
	if s == nil {
		return
	}
	pool := []key{schemeKey(0, 1, c.shards(), isX(c.variant)), schemeKey(3, 2, c.shards(), isX(c.variant))}
	if c.room() < 2 {
		pool = pool[:1]
	}
	for _, n := range lens {
		k := pool[rng.Intn(len(pool))]
		op := []string{"set", "get", "exist"}[rng.Intn(3)]
		v := 1 + rng.Intn(1000)
		var rec, first tr.E
		same := true
		for i := 0; i < n; i++ {
			// a run of Sets stores a new value id every time: the last one must be what stays
			a, rep := call(s, op, k, v+i, false)
			if i == 0 {
				first = rep
			} else if !sameE(rep, first) {
				same = false
			}
			rec = a
		}
		w.Emit(tr.E{"ev": "run", "a": rec, "r": first, "n": n, "same": same})
		// and what a reader sees afterwards
		a, rep := call(s, "get", k, 0, false)
		w.Emit(tr.E{"ev": "call", "a": a, "r": rep})
	}
}

// routing: the same question n times on one instance
func routeLong(w *tr.W, rng *rand.Rand, n int, lens []int) {
	rm, numbs, cnote := newReMap(n)
	w.Emit(tr.E{"ev": "reset", "kind": "routelong", "threads": 1, "shards": n, "numbs": numbs, "src": "longrun", "note": cnote})
	if rm == nil {
		return
	}
	for _, cnt := range lens {
		var k key
		switch rng.Intn(4) {
		case 0:
			k = mkInt(rng.Intn(10), rng.Uint64())
		case 1:
			k = strKey(fmt.Sprintf("user:%d", rng.Intn(1000)))
		case 2:
			k = bytesKey(randBytes(rng, 1+rng.Intn(40)))
		default:
			k = mkBoth(rng.Uint64(), "b")
		}
		op := []string{"simple", "xhash"}[rng.Intn(2)]
		same, inmut := true, true
		first := 0
		note := ""
		for i := 0; i < cnt; i++ {
			tick()
			g := guardInput(k)
			var idx int
			var nt string
			if op == "simple" {
				idx, nt = index(func() int { return rm.SimpleIndex(k.v) })
			} else {
				idx, nt = index(func() int { return rm.XHashIndex(k.v) })
			}
			inmut = inmut && g()
			if i == 0 {
				first, note = idx, nt
			} else if idx != first {
				same = false
			}
		}
		e := idxEvent(op, k.routeRec(op), 0, first, inmut, note)
		e["ev"], e["n"], e["same"] = "idxrun", cnt, same
		w.Emit(e)
	}
}

// State that survives reconfiguration: several routers / containers of DIFFERENT configurations are
// alive at once and get the same questions / calls alternately (A, B, back to A, a second A); what
// each configuration answered is written as a trace of its own (same shard count: one trace).
func routeInterleaved(w *tr.W, rng *rand.Rand, rounds int) {
	for r := 0; r < rounds; r++ {
		ns := [][]int{{2, 3, 2}, {73, 1, 0}, {256, 255, 256}, {3, 100003, 3}, {1, 2, 1}}[r%5]
		type inst struct {
			n   int
			rm  *remap.ReMap
			evs []tr.E
		}
		byN := map[int]*[]tr.E{}
		var order []int
		var insts []inst
		for _, n := range ns {
			rm, _, _ := newReMap(n)
			if n == 0 {
				n = int(remap.DefaultPrime)
			}
			if rm == nil {
				continue // a panicking constructor is reported by the routing traces
			}
			if byN[n] == nil {
				byN[n] = new([]tr.E)
				order = append(order, n)
			}
			insts = append(insts, inst{n: n, rm: rm})
		}
		ps := patterns(rng, 73, 4)
		for q := 0; q < 12; q++ {
			p := ps[rng.Intn(len(ps))]
			var k key
			op := []string{"simple", "xhash", "search"}[rng.Intn(3)]
			switch rng.Intn(3) {
			case 0:
				k = mkInt(rng.Intn(10), p)
			case 1:
				k = strKey(fmt.Sprintf("user:%d", rng.Intn(100)))
			default:
				k = bytesKey(randBytes(rng, rng.Intn(12)))
			}
			for _, in := range insts {
				tick()
				in := in
				var e tr.E
				if op == "search" {
					i, note := index(func() int { return in.rm.SearchIndex(p) })
					e = idxEvent("search", tr.E{"t": "hash", "b": tr.Limbs(p)}, p, i, true, note)
				} else {
					g := guardInput(k)
					var i int
					var note string
					if op == "simple" {
						i, note = index(func() int { return in.rm.SimpleIndex(k.v) })
					} else {
						i, note = index(func() int { return in.rm.XHashIndex(k.v) })
					}
					e = idxEvent(op, k.routeRec(op), 0, i, g(), note)
				}
				*byN[in.n] = append(*byN[in.n], e)
			}
		}
		for _, n := range order {
			w.Emit(tr.E{"ev": "reset", "kind": "routemix", "threads": 1, "shards": n, "numbs": n, "src": "interleaved", "note": ""})
			for _, e := range *byN[n] {
				w.Emit(e)
			}
		}
	}
}

func mapsInterleaved(w *tr.W, rng *rand.Rand, rounds int) {
	for r := 0; r < rounds; r++ {
		va := variants[1+r%6]
		vb := variants[1+(r+1+r/6)%6]
		cs := []conf{
			{variant: va, n: 1 + r%3, capa: farCap, vmul: 1, voff: r},
			{variant: vb, n: []int{0, 2, 7, 64}[r%4], capa: farCap, vmul: 1, voff: r + 1},
			{variant: va, n: 1 + (r+1)%3, capa: farCap, vmul: 0, voff: r},
		}
		var ss []store
		var logs [][]tr.E
		for _, c := range cs {
			s, note := newStoreC(c)
			if s == nil {
				w.Emit(c.reset("map", "interleaved", 1, 0))
				w.Emit(tr.E{"ev": "panic", "where": "constructor", "note": note})
				continue
			}
			ss = append(ss, s)
			logs = append(logs, []tr.E{c.reset("map", "interleaved", 1, 0)})
		}
		x := isX(va) || isX(vb)
		pool := make([]key, 4)
		for j := range pool {
			pool[j] = schemeKey([]int{0, 3, 9, 2}[r%4], j+1, 3, x)
		}
		for i := 0; i < 30; i++ {
			k := pool[rng.Intn(len(pool))]
			op := []string{"set", "set", "get", "exist", "del"}[rng.Intn(5)]
			v := 1 + rng.Intn(50)
			for j, s := range ss {
				if rng.Intn(4) == 0 {
					continue // not every container sees every call: their contents drift apart
				}
				rec, rep := call(s, op, k, v, i%2 == 1)
				logs[j] = append(logs[j], tr.E{"ev": "call", "a": rec, "r": rep})
			}
		}
		for _, l := range logs {
			for _, e := range l {
				w.Emit(e)
			}
		}
	}
}

func readPlan(path string) []act {
	f, err := os.Open(path)
	if err != nil {
		tr.Fatal("%v", err)
	}
	defer f.Close()
	var out []act
	sc := bufio.NewScanner(f)
	for sc.Scan() {
		var a act
		if err := json.Unmarshal(sc.Bytes(), &a); err != nil {
			tr.Fatal("plan %s: %v", path, err)
		}
		out = append(out, a)
	}
	return out
}

func main() {
	plans := flag.String("plans", "", "directory of TLC-generated plans")
	out := flag.String("out", "route.ndjson", "routing traces")
	maps := flag.String("maps", "maps.ndjson", "container traces")
	seed := flag.Int64("seed", 1, "seed")
	nrand := flag.Int("nrand", 40, "random hashes per routing trace")
	nextra := flag.Int("nextra", 4, "additional random shard counts")
	nhist := flag.Int("hist", 150, "random container histories")
	maxops := flag.Int("maxops", 60, "max ops per random history")
	races := flag.String("races", "races.ndjson", "race-round traces")
	nrace := flag.Int("nrace", 3000, "race rounds to run at most")
	nracekeep := flag.Int("nracekeep", 1200, "race rounds (with real overlap) to keep at most")
	nroutecold := flag.Int("nroutecold", 150, "cold-start routing rounds")
	nneigh := flag.Int("nneigh", 2, "shard counts next to powers of two per run")
	nmix := flag.Int("nmix", 10, "interleaved-configuration rounds")
	longmax := flag.Int("longmax", 6, "how many of the run lengths 255..65537 to use")
	pressure := flag.String("pressure", "pressure.ndjson", "capacity-pressure traces (LRU_Trace format)")
	npress := flag.Int("npress", 240, "capacity-pressure histories")
	flag.Parse()
	rng := rand.New(rand.NewSource(*seed))

	// shard counts: the fixed list of DESIGN.md + powers of two, divisors of 2^64-1 (3, 5, 255, 65535:
	// no remainder at the top of the hash space), large primes, and seeded random ones
	counts := []int{1, 2, 3, 4, 64, 73, 211, 1000, 5, 255, 256, 4096, 10007, 65535, 65536, 100003}
	for i := 0; i < *nextra; i++ {
		counts = append(counts, 1+rng.Intn(5000))
	}
	// neighbours of the powers of two and of the default prime (some per run)
	neigh := []int{63, 65, 72, 74, 257, 4095, 4097, 65537}
	rng.Shuffle(len(neigh), func(i, j int) { neigh[i], neigh[j] = neigh[j], neigh[i] })
	if *nneigh < len(neigh) {
		neigh = neigh[:*nneigh]
	}
	counts = append(counts, neigh...)

	go watchdog()

	// all trace files exist from the start (the watchdog may end the run in any phase)
	w, mw, rw, pw := openTrace(*out), openTrace(*maps), openTrace(*races), openTrace(*pressure)
	curW.Store(w)
	nev := routeTrace(w, rng, 0, *nrand, "default")
	for _, n := range counts {
		nev += routeTrace(w, rng, n, *nrand, "prime")
	}
	ncold := routeRaces(w, rng, *nroutecold)
	routeInterleaved(w, rng, *nmix)
	lens := runLens
	if *longmax < len(lens) {
		lens = lens[:*longmax]
	}
	for _, n := range []int{1, 73, 256} {
		routeLong(w, rng, n, lens)
	}

	curW.Store(mw)
	small := []int{1, 2, 3, 4, 7, 64, 73, 211, 1000}
	// capacities of the LRU facades: out of reach (most histories), and the edges of the range: 0, 1,
	// around the shard count, the top of int64 (the histories then use only as many keys as surely fit)
	capOf := func(i, n int) int64 {
		switch i % 12 {
		case 3:
			return []int64{0, 1, int64(n) - 1, int64(n), int64(n) + 1, 3*int64(n) + 2}[(i/12)%6]
		case 7:
			return []int64{math.MaxInt64, math.MaxInt64 - 1, math.MaxInt64 / 2}[(i/12)%3]
		}
		return farCap
	}
	if *plans != "" {
		files, _ := filepath.Glob(filepath.Join(*plans, "*.ndjson"))
		sort.Strings(files)
		for i, f := range files {
			p := readPlan(f)
			if len(p) == 0 || p[0].Op != "init" {
				tr.Fatal("plan %s does not start with init", f)
			}
			n := p[0].N
			if i%2 == 1 {
				n = small[(i/2)%len(small)]
			}
			if i%9 == 4 {
				n = 0 // constructors called without any option
			}
			base := filepath.Base(f)
			third := []string{"single", "lru", "lrux", "tiny", "tinyx"}[i%5]
			for j, v := range []string{"wide", "widex", third} {
				c := conf{variant: v, n: n, vmul: i % 3, voff: i/3 + j}
				c.capa = capOf(i, c.shards())
				runPlan(mw, "plan:"+base, c, (i+3*j)%nSchemes, p[1:])
			}
		}
	}
	for i := 0; i < *nhist; i++ {
		v := variants[i%len(variants)]
		n := counts[rng.Intn(len(counts))]
		if n > 5000 && i%50 != 7 { // a few containers with very many shards, the rest small
			n = small[rng.Intn(len(small))]
		}
		if i%11 == 5 {
			n = 0
		}
		c := conf{variant: v, n: n, vmul: (i / 7) % 3, voff: rng.Intn(nMapKinds * nLRUKinds)}
		c.capa = capOf(i/7, c.shards())
		runRandom(mw, rng, c, 10+rng.Intn(*maxops))
	}
	mapsInterleaved(mw, rng, *nmix)
	for i, v := range []string{"wide", "widex", "lru", "lrux", "tiny", "tinyx"} {
		runLong(mw, rng, conf{variant: v, n: []int{1, 2, 0}[i%3], capa: farCap, vmul: i % 2, voff: i}, lens)
	}
	// the edges of every constructor argument, each time: shard count 1, 2, none given; capacity 0, 1,
	// around the shard count, top of int64
	for _, v := range []string{"lru", "lrux", "tiny", "tinyx", "wide", "widex"} {
		for _, n := range []int{1, 2, 0} {
			c := conf{variant: v, n: n, vmul: 1, voff: rng.Intn(nMapKinds * nLRUKinds)}
			N := int64(c.shards())
			for _, capa := range []int64{0, 1, N - 1, N, math.MaxInt64 - 1, math.MaxInt64} {
				c.capa = capa
				if c.capTag() == "none" && capa != 0 {
					continue // the maps take no capacity: one history per shard count
				}
				runRandom(mw, rng, c, 8+rng.Intn(10))
			}
		}
	}

	curW.Store(rw)
	ran, kept := runRaces(rw, rng, *nrace, *nracekeep)
	curW.Store(pw)
	runPressure(pw, rng, *npress)
	_ = nev
	for _, x := range allW {
		x.Close()
	}
	fmt.Printf("pressure_events=%d ", pw.N())
	fmt.Printf("cold_route_events=%d ", ncold)
	fmt.Printf("route_events=%d map_events=%d race_events=%d race_rounds=%d race_rounds_with_overlap=%d\n",
		w.N(), mw.N(), rw.N(), ran, kept)
}
