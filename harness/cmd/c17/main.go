// c17: shard routing.  Records
//   - routing observations of the real remap package (SearchIndex / XHashIndex / SimpleIndex) for
//     every supported key type, boundary-biased hashes and keys, many shard counts  -> -out
//   - call-by-call histories (TLC plans + seeded random ones) of cache.Map, cache.WideMap,
//     cache.WideXHashMap and the wide LRU facades (capacity out of reach)              -> -maps
// as ndjson for validation by TLC (specs/shard/Shard_Trace.tla).  The harness judges nothing.
package main

import (
	"bufio"
	"encoding/json"
	"flag"
	"fmt"
	"math"
	"math/rand"
	"os"
	"path/filepath"
	"runtime"
	"sort"
	"sync"
	"sync/atomic"

	"github.com/pinealctx/neptune/cache"
	"github.com/pinealctx/neptune/cache/tiny"
	"github.com/pinealctx/neptune/remap"

	"verif/harness/internal/tr"
)

// ---------------------------------------------------------------- key types of the test

type hitKey struct{ H uint64 } // remap.HitGroup only

func (h hitKey) Hit() uint64 { return h.H }

type bsKey struct{ S string } // remap.Bs only

func (b bsKey) ToBytes() []byte { return []byte(b.S) }

type bothKey struct { // HitGroup and Bs: SimpleIndex uses Hit, XHashIndex uses ToBytes
	H uint64
	S string
}

func (b bothKey) Hit() uint64     { return b.H }
func (b bothKey) ToBytes() []byte { return []byte(b.S) }

// key is one concrete key together with how the trace names it.
type key struct {
	v    interface{} // the value handed to neptune
	t    string      // type tag
	id   []int       // identity under Go equality (with t): limbs, bytes, or limbs ++ bytes
	mod  bool        // SimpleIndex routes it by modulo (integer / HitGroup)
	u    uint64      // mod: the uint64 the modulo is taken of (sign-extended)
	neg  bool        // mod: the key is a negative integer
	hash bool        // XXHash supports it
	bs   []byte      // hash: what the hash route looks at
	cmp  bool        // usable as a Go map key
}

func intKey(t string, v interface{}, u uint64, neg bool) key {
	return key{v: v, t: t, id: tr.Limbs(u), mod: true, u: u, neg: neg, hash: true, cmp: true}
}

// mkInt casts the 64-bit pattern c to integer type number ty (0..9).
func mkInt(ty int, c uint64) key {
	switch ty {
	case 0:
		x := uint8(c)
		return intKey("u8", x, uint64(x), false)
	case 1:
		x := int8(c)
		return intKey("i8", x, uint64(x), x < 0)
	case 2:
		x := int16(c)
		return intKey("i16", x, uint64(x), x < 0)
	case 3:
		x := uint16(c)
		return intKey("u16", x, uint64(x), false)
	case 4:
		x := int32(c)
		return intKey("i32", x, uint64(x), x < 0)
	case 5:
		x := uint32(c)
		return intKey("u32", x, uint64(x), false)
	case 6:
		x := int64(c)
		return intKey("i64", x, uint64(x), x < 0)
	case 7:
		return intKey("u64", c, c, false)
	case 8:
		x := int(c)
		return intKey("int", x, uint64(x), x < 0)
	default:
		x := uint(c)
		return intKey("uint", x, uint64(x), false)
	}
}

func strKey(s string) key {
	return key{v: s, t: "str", id: tr.Str(s), hash: true, bs: []byte(s), cmp: true}
}
func bytesKey(b []byte) key { // not comparable: routing only
	return key{v: b, t: "bytes", id: tr.Ints(b), hash: true, bs: b}
}
func mkBs(s string) key {
	return key{v: bsKey{s}, t: "bs", id: tr.Str(s), hash: true, bs: []byte(s), cmp: true}
}
func mkHit(h uint64) key {
	return key{v: hitKey{h}, t: "hit", id: tr.Limbs(h), mod: true, u: h, cmp: true}
}
func mkBoth(h uint64, s string) key {
	return key{v: bothKey{h, s}, t: "both", id: append(tr.Limbs(h), tr.Str(s)...), mod: true, u: h,
		hash: true, bs: []byte(s), cmp: true}
}

// the key as the spec's record [t, b]: type tag + identity under Go equality
func (k key) routeRec(op string) tr.E { return tr.E{"t": k.t, "b": k.id} }

func (k key) mapRec() tr.E { return tr.E{"t": k.t, "b": k.id} }

// ---------------------------------------------------------------- routing observations

const panicIdx = -1000000

func clampIdx(i int) int {
	if i > math.MaxInt32 || i < math.MinInt32 {
		return -2000000000
	}
	return i
}

// index calls f and turns a panic into an index no contract accepts.
func index(f func() int) (i int, note string) {
	defer func() {
		if p := recover(); p != nil {
			i, note = panicIdx, fmt.Sprintf("panic: %v", p)
		}
	}()
	return clampIdx(f()), ""
}

func hashOf(k key) (h uint64, ok bool) {
	defer func() {
		if recover() != nil {
			ok = false
		}
	}()
	return remap.XXHash(k.v), true
}

type router struct {
	w      *tr.W
	n      int
	rm     *remap.ReMap
	rng    *rand.Rand
	events int
}

func (r *router) inst() *remap.ReMap {
	// stability also across instances of the same shard count
	if r.rng.Intn(4) == 0 {
		return remap.NewReMap(remap.WithPrime(uint64(r.n)))
	}
	return r.rm
}

func (r *router) emit(op string, krec tr.E, h uint64, i int, note string) {
	e := tr.E{"ev": "idx", "a": tr.E{"op": op, "k": krec, "h": tr.Limbs(h)}, "r": i}
	if note != "" {
		e["note"] = note
	}
	r.w.Emit(e)
	r.events++
}

func (r *router) search(x uint64) {
	rm := r.inst()
	i, note := index(func() int { return rm.SearchIndex(x) })
	r.emit("search", tr.E{"t": "hash", "b": tr.Limbs(x)}, x, i, note)
}

func (r *router) simple(k key) {
	rm := r.inst()
	var h uint64
	if k.mod {
		h = k.u
	} else {
		var ok bool
		if h, ok = hashOf(k); !ok {
			// every key the harness draws is of a type the routing is documented to take: a panic
			// here is an observation of the code under test, not a harness fault
			r.emit("simple", k.routeRec("simple"), 0, panicIdx, "panic in XXHash")
			return
		}
	}
	i, note := index(func() int { return rm.SimpleIndex(k.v) })
	r.emit("simple", k.routeRec("simple"), h, i, note)
}

func (r *router) xhash(k key) {
	if !k.hash {
		return // HitGroup-only keys are not supported by the hash route
	}
	rm := r.inst()
	h, ok := hashOf(k)
	if !ok {
		r.emit("xhash", k.routeRec("xhash"), 0, panicIdx, "panic in XXHash")
		return
	}
	i, note := index(func() int { return rm.XHashIndex(k.v) })
	r.emit("xhash", k.routeRec("xhash"), h, i, note)
}

// boundary-biased 64-bit patterns for n shards
func patterns(rng *rand.Rand, n, nrand int) []uint64 {
	N := uint64(n)
	y := uint64(math.MaxUint64) / N
	ps := []uint64{0, 1, 2, math.MaxUint64, math.MaxUint64 - 1, 1 << 63, 1<<63 - 1, 1<<63 + 1,
		1 << 32, 1<<32 - 1, 1 << 31, 1<<31 - 1, 1 << 16, 1<<16 - 1, 1 << 15, 1 << 8, 1 << 7, 127, 255,
		N, N - 1, N + 1, 2 * N, 2*N - 1, -N, -N + 1, -N - 1, ^uint64(0) / 2,
		y * N, y*N - 1, y*N + 1, y, y - 1, y + 1}
	// around boundaries of the ideal equal partition: first, last, middle, a few random ones
	bi := []uint64{0, 1, N / 2, N - 2, N - 1}
	for j := 0; j < 6; j++ {
		bi = append(bi, uint64(rng.Int63n(int64(N))))
	}
	for _, i := range bi {
		if i >= N {
			continue
		}
		b := y * (i + 1)
		ps = append(ps, b-1, b, b+1)
	}
	for j := 0; j < 64; j += 7 {
		ps = append(ps, uint64(1)<<uint(j), uint64(1)<<uint(j)-1, ^(uint64(1) << uint(j)))
	}
	for j := 0; j < nrand; j++ {
		switch rng.Intn(4) {
		case 0:
			ps = append(ps, rng.Uint64()>>uint(rng.Intn(64)))
		case 1:
			ps = append(ps, -(rng.Uint64() >> uint(rng.Intn(64))))
		case 2:
			ps = append(ps, uint64(rng.Int63n(int64(4*N)+1)))
		default:
			ps = append(ps, rng.Uint64())
		}
	}
	return ps
}

func randBytes(rng *rand.Rand, n int) []byte {
	b := make([]byte, n)
	rng.Read(b)
	return b
}

func routeTrace(w *tr.W, rng *rand.Rand, n, nrand int, src string) int {
	var rm *remap.ReMap
	if src == "default" {
		rm = remap.NewReMap()
		n = int(remap.DefaultPrime)
	} else {
		rm = remap.NewReMap(remap.WithPrime(uint64(n)))
	}
	r := &router{w: w, n: n, rm: rm, rng: rng}
	w.Emit(tr.E{"ev": "reset", "kind": "route", "threads": 1, "shards": n, "numbs": clampIdx(int(rm.Numbs())), "src": src})

	type job func()
	var jobs []job
	ps := patterns(rng, n, nrand)
	for _, p := range ps {
		p := p
		jobs = append(jobs, func() { r.search(p) })
	}
	// integer keys of every width: each pattern cast to two of the ten types (all ten over the run),
	// both routes
	for i, p := range ps {
		for d := 0; d < 2; d++ {
			k := mkInt((i+5*d)%10, p)
			jobs = append(jobs, func() { r.simple(k) })
			if (i+d)%3 == 0 {
				jobs = append(jobs, func() { r.xhash(k) })
			}
		}
	}
	// the same small values in every integer type (distinct keys, same residue)
	for ty := 0; ty < 10; ty++ {
		for _, c := range []uint64{0, 1, uint64(n), ^uint64(0), -uint64(n), 1 << 7, 1 << 15, 1 << 31, 1 << 63} {
			k := mkInt(ty, c)
			jobs = append(jobs, func() { r.simple(k) }, func() { r.xhash(k) })
		}
	}
	// HitGroup / Bs implementers
	for i, p := range ps {
		if i%4 == 0 {
			k := mkHit(p)
			jobs = append(jobs, func() { r.simple(k) })
		}
		if i%9 == 0 {
			k := mkBoth(p, fmt.Sprintf("s%d", i%5))
			jobs = append(jobs, func() { r.simple(k) }, func() { r.xhash(k) })
		}
	}
	// strings, byte slices, Bs: empty, short, long, binary; equal contents in all three forms
	var blobs [][]byte
	blobs = append(blobs, []byte{}, []byte("a"), []byte("key"), []byte{0}, []byte{0, 0}, []byte{255},
		[]byte("0123456789abcdef0123456789abcdef"), // 32 bytes: xxhash block boundary
		[]byte("0123456789abcdef0123456789abcde"), []byte("0123456789abcdef0123456789abcdef0"))
	for i := 0; i < nrand/3+8; i++ {
		switch rng.Intn(3) {
		case 0:
			blobs = append(blobs, []byte(fmt.Sprintf("user:%d", rng.Intn(100000))))
		case 1:
			blobs = append(blobs, randBytes(rng, rng.Intn(70)))
		default:
			blobs = append(blobs, randBytes(rng, 1+rng.Intn(8)))
		}
	}
	for i, b := range blobs {
		ks := []key{strKey(string(b)), bytesKey(b), mkBs(string(b))}
		for j, k := range ks {
			k := k
			if (i+j)%2 == 0 {
				jobs = append(jobs, func() { r.simple(k) })
			} else {
				jobs = append(jobs, func() { r.xhash(k) })
			}
			if i < 9 {
				jobs = append(jobs, func() { r.simple(k) }, func() { r.xhash(k) })
			}
		}
	}
	// nil byte slice is a supported []byte
	jobs = append(jobs, func() { r.xhash(bytesKey(nil)) })
	// ask half of everything a second time, then shuffle the lot
	m := len(jobs)
	for i := 0; i < m/2; i++ {
		jobs = append(jobs, jobs[rng.Intn(m)])
	}
	rng.Shuffle(len(jobs), func(i, j int) { jobs[i], jobs[j] = jobs[j], jobs[i] })
	for _, j := range jobs {
		j()
	}
	return r.events
}

// ---------------------------------------------------------------- containers

type act struct {
	Op string `json:"op"`
	K  int    `json:"k"`
	V  int    `json:"v"`
	N  int    `json:"n"`
}

type store interface {
	set(k interface{}, v int)
	get(k interface{}, alt bool) (int, bool)
	exist(k interface{}) bool
	del(k interface{}) (existed bool, reports bool)
}

type mapStore struct{ m cache.MapFacade }

func (s mapStore) set(k interface{}, v int) { s.m.Set(k, v) }
func (s mapStore) get(k interface{}, alt bool) (int, bool) {
	v, ok := s.m.Get(k)
	if !ok {
		return 0, false
	}
	return v.(int), true
}
func (s mapStore) exist(k interface{}) bool       { return s.m.Exist(k) }
func (s mapStore) del(k interface{}) (bool, bool) { s.m.Delete(k); return false, false }

type sv struct{ id int }

func (sv) Size() int { return 1 }

type lruStore struct{ c cache.LRUFacade }

func (s lruStore) set(k interface{}, v int) { s.c.Set(k, sv{v}) }
func (s lruStore) get(k interface{}, alt bool) (int, bool) {
	var v cache.Value
	var ok bool
	if alt {
		v, ok = s.c.Peek(k)
	} else {
		v, ok = s.c.Get(k)
	}
	if !ok {
		return 0, false
	}
	return v.(sv).id, true
}
func (s lruStore) exist(k interface{}) bool       { return s.c.Exist(k) }
func (s lruStore) del(k interface{}) (bool, bool) { return s.c.Delete(k), true }

type tinyStore struct{ c tiny.LRU }

func (s tinyStore) set(k interface{}, v int) { s.c.Set(k, v) }
func (s tinyStore) get(k interface{}, alt bool) (int, bool) {
	var v interface{}
	var ok bool
	if alt {
		v, ok = s.c.Peek(k)
	} else {
		v, ok = s.c.Get(k)
	}
	if !ok {
		return 0, false
	}
	return v.(int), true
}
func (s tinyStore) exist(k interface{}) bool       { return s.c.Exist(k) }
func (s tinyStore) del(k interface{}) (bool, bool) { return s.c.Delete(k), true }

const farCap = int64(1) << 40 // per-shard capacity no history can reach

var variants = []string{"single", "wide", "widex", "lru", "lrux", "tiny", "tinyx"}

func isX(variant string) bool { return variant == "widex" || variant == "lrux" || variant == "tinyx" }

func newStore(variant string, n int) store {
	o := remap.WithPrime(uint64(n))
	switch variant {
	case "single":
		return mapStore{cache.NewSingleMap()}
	case "wide":
		return mapStore{cache.NewWideMap(o)}
	case "widex":
		return mapStore{cache.NewWideXHashMap(o)}
	case "lru":
		return lruStore{cache.NeWideLRUCache(farCap, o)}
	case "lrux":
		return lruStore{cache.NewWideXHashLRUCache(farCap, o)}
	case "tiny":
		return tinyStore{tiny.NeWideLRU(farCap, o)}
	case "tinyx":
		return tinyStore{tiny.NewWideXHashLRU(farCap, o)}
	}
	tr.Fatal("variant %q", variant)
	return nil
}

// one call; a panic becomes a reply no map gives (v = -1)
func call(s store, op string, k key, v int, alt bool) (rec tr.E, r tr.E) {
	a := tr.E{"op": op, "k": k.mapRec()}
	defer func() {
		if p := recover(); p != nil {
			rec, r = a, tr.E{"ok": false, "v": -1, "panic": fmt.Sprintf("%v", p)}
		}
	}()
	switch op {
	case "set":
		a["v"] = v
		s.set(k.v, v)
		return a, tr.E{"ok": true, "v": 0}
	case "get":
		x, ok := s.get(k.v, alt)
		return a, tr.E{"ok": ok, "v": x}
	case "exist":
		return a, tr.E{"ok": s.exist(k.v), "v": 0}
	case "del", "delr":
		ex, reports := s.del(k.v)
		if reports {
			a["op"] = "delr"
			return a, tr.E{"ok": ex, "v": 0}
		}
		a["op"] = "del"
		return a, tr.E{"ok": true, "v": 0}
	}
	tr.Fatal("op %q", op)
	return nil, nil
}

// concrete keys for the abstract keys 1..6 of a plan
const nSchemes = 10

func schemeKey(scheme, j, n int, x bool) key {
	N := uint64(n)
	J := uint64(j)
	switch scheme {
	case 0:
		return mkInt(8, J)
	case 1: // all in shard 0 of the modulo route
		return mkInt(8, J*N)
	case 2:
		return mkInt(6, -J)
	case 3:
		return strKey(fmt.Sprintf("k%d", j))
	case 4: // one value, six types: six keys
		return mkInt([]int{1, 2, 4, 6, 0, 9}[(j-1)%6], 1)
	case 5: // extremes
		switch (j - 1) % 6 {
		case 0:
			return mkInt(6, 1<<63)
		case 1:
			return mkInt(6, 1<<63-1)
		case 2:
			return mkInt(7, math.MaxUint64)
		case 3:
			return mkInt(4, 1<<31)
		case 4:
			return mkInt(1, 0xff)
		}
		return mkInt(8, -N)
	case 6: // HitGroup, all in one shard (hash route does not support it: use both)
		if x {
			return mkBoth(J*N, fmt.Sprintf("h%d", j))
		}
		return mkHit(J*N + 3)
	case 7:
		return mkBoth(7, fmt.Sprintf("s%d", j))
	case 8:
		return mkBs(fmt.Sprintf("b%d", j))
	}
	// 9: one "1", six kinds of key
	switch (j - 1) % 6 {
	case 0:
		return strKey("1")
	case 1:
		return mkInt(8, 1)
	case 2:
		return mkBs("1")
	case 3:
		return mkInt(4, 1)
	case 4:
		return mkInt(7, 1)
	}
	return mkBoth(1, "1")
}

func runPlan(w *tr.W, src, variant string, n, scheme int, acts []act) {
	s := newStore(variant, n)
	w.Emit(tr.E{"ev": "reset", "kind": "map", "threads": 1, "variant": variant, "shards": n, "numbs": n, "scheme": scheme, "src": src})
	for i, a := range acts {
		k := schemeKey(scheme, a.K, n, isX(variant))
		rec, r := call(s, a.Op, k, a.V, i%2 == 1)
		w.Emit(tr.E{"ev": "call", "a": rec, "r": r})
	}
}

func randKey(rng *rand.Rand, n int, x bool) key {
	ps := patterns(rng, n, 2)
	p := ps[rng.Intn(len(ps))]
	switch c := rng.Intn(20); {
	case c < 10:
		return mkInt(rng.Intn(10), p)
	case c < 13:
		return strKey(fmt.Sprintf("user:%d", rng.Intn(50)))
	case c < 14:
		return strKey(string(randBytes(rng, rng.Intn(40))))
	case c < 16:
		return mkBs(fmt.Sprintf("%d", rng.Intn(50)))
	case c < 18:
		return mkBoth(p, fmt.Sprintf("%d", rng.Intn(4)))
	}
	if x {
		return mkInt(rng.Intn(10), uint64(rng.Intn(4*n+1)))
	}
	return mkHit(p)
}

func runRandom(w *tr.W, rng *rand.Rand, variant string, n, nops int) {
	s := newStore(variant, n)
	pool := make([]key, 3+rng.Intn(30))
	for i := range pool {
		pool[i] = randKey(rng, n, isX(variant))
	}
	w.Emit(tr.E{"ev": "reset", "kind": "map", "threads": 1, "variant": variant, "shards": n, "numbs": n, "scheme": -1, "src": "rand"})
	for i := 0; i < nops; i++ {
		k := pool[rng.Intn(len(pool))]
		op := []string{"set", "set", "set", "get", "get", "get", "exist", "exist", "del"}[rng.Intn(9)]
		rec, r := call(s, op, k, 1+rng.Intn(1000), rng.Intn(2) == 0)
		w.Emit(tr.E{"ev": "call", "a": rec, "r": r})
	}
}

// Race rounds: the sharded containers must answer as the unsharded map also for concurrent callers
// (cache.Map is safe for concurrent use).  Every round takes a FRESH container with 1..3 shards,
// releases 2..4 goroutines together by a spin barrier and lets each issue 1..3 calls on a handful of
// distinct keys (more keys than shards: several collide in one shard).  A global atomic sequence
// number is drawn before a call starts and after it returned, so the merged inv/res order is
// consistent with real time.  Only rounds in which calls really overlapped are kept (the others are
// sequential histories, covered elsewhere; dropping can only lose coverage).  Every round ends with
// a sequential Get + Exist probe of all keys of the round.  TLC infers the linearization.
// Returns (rounds run, rounds kept).
func runRaces(w *tr.W, rng *rand.Rand, rounds, keep int) (int, int) {
	ran, kept := 0, 0
	wide := []string{"wide", "widex", "lru", "lrux", "tiny", "tinyx"}
	schemes := []int{0, 3, 9, 2, 4, 8}
	for r := 0; r < rounds && kept < keep; r++ {
		ran++
		variant := wide[r%len(wide)]
		if r%4 < 2 { // the maps proper get half of all rounds
			variant = wide[r%2]
		}
		n := 1 + (r/2)%3
		threads := 2 + rng.Intn(3)
		scheme := schemes[rng.Intn(len(schemes))]
		nkeys := 2 + rng.Intn(3)
		if nkeys < threads {
			nkeys = threads
		}
		pool := make([]key, nkeys)
		for j := range pool {
			pool[j] = schemeKey(scheme, j+1, n, isX(variant))
		}
		type step struct {
			op string
			k  key
			v  int
		}
		progs := make([][]step, threads)
		for t := range progs {
			cnt := 1 + rng.Intn(3)
			for i := 0; i < cnt; i++ {
				k := pool[t%nkeys] // mostly a key of its own: distinct keys meet in one shard
				if rng.Intn(4) == 0 {
					k = pool[rng.Intn(nkeys)]
				}
				op := "set"
				if i > 0 || rng.Intn(10) >= 7 {
					op = []string{"set", "set", "get", "exist", "del"}[rng.Intn(5)]
				}
				progs[t] = append(progs[t], step{op, k, 100*(t+1) + i})
			}
		}
		s := newStore(variant, n)
		type sev struct {
			seq int64
			e   tr.E
		}
		per := make([][]sev, threads)
		var seq int64
		var goFlag, readyCnt int32
		var wg sync.WaitGroup
		for t := 0; t < threads; t++ {
			wg.Add(1)
			go func(t int) {
				defer wg.Done()
				atomic.AddInt32(&readyCnt, 1)
				for atomic.LoadInt32(&goFlag) == 0 {
				}
				for i, st := range progs[t] {
					a := tr.E{"op": st.op, "k": st.k.mapRec()}
					if st.op == "set" {
						a["v"] = st.v
					}
					if st.op == "del" && variant != "wide" && variant != "widex" {
						a["op"] = "delr" // the LRU facades report whether they removed
					}
					s0 := atomic.AddInt64(&seq, 1)
					_, rep := call(s, st.op, st.k, st.v, i%2 == 1)
					s1 := atomic.AddInt64(&seq, 1)
					per[t] = append(per[t], sev{s0, tr.E{"ev": "inv", "t": t + 1, "a": a}},
						sev{s1, tr.E{"ev": "res", "t": t + 1, "r": rep}})
				}
			}(t)
		}
		for atomic.LoadInt32(&readyCnt) < int32(threads) {
			runtime.Gosched()
		}
		atomic.StoreInt32(&goFlag, 1)
		wg.Wait()
		var all []sev
		for _, p := range per {
			all = append(all, p...)
		}
		sort.Slice(all, func(i, j int) bool { return all[i].seq < all[j].seq })
		open, overlap := 0, false
		for _, x := range all {
			if x.e["ev"] == "inv" {
				open++
				if open > 1 {
					overlap = true
				}
			} else {
				open--
			}
		}
		if !overlap {
			continue
		}
		kept++
		w.Emit(tr.E{"ev": "reset", "kind": "race", "threads": threads, "variant": variant, "shards": n, "numbs": n,
			"scheme": scheme, "src": "race"})
		for _, x := range all {
			w.Emit(x.e)
		}
		for j, k := range pool {
			rec, rep := call(s, "get", k, 0, j%2 == 1)
			w.Emit(tr.E{"ev": "call", "a": rec, "r": rep})
			rec, rep = call(s, "exist", k, 0, false)
			w.Emit(tr.E{"ev": "call", "a": rec, "r": rep})
		}
	}
	return ran, kept
}

func readPlan(path string) []act {
	f, err := os.Open(path)
	if err != nil {
		tr.Fatal("%v", err)
	}
	defer f.Close()
	var out []act
	sc := bufio.NewScanner(f)
	for sc.Scan() {
		var a act
		if err := json.Unmarshal(sc.Bytes(), &a); err != nil {
			tr.Fatal("plan %s: %v", path, err)
		}
		out = append(out, a)
	}
	return out
}

func main() {
	plans := flag.String("plans", "", "directory of TLC-generated plans")
	out := flag.String("out", "route.ndjson", "routing traces")
	maps := flag.String("maps", "maps.ndjson", "container traces")
	seed := flag.Int64("seed", 1, "seed")
	nrand := flag.Int("nrand", 40, "random hashes per routing trace")
	nextra := flag.Int("nextra", 4, "additional random shard counts")
	nhist := flag.Int("hist", 150, "random container histories")
	maxops := flag.Int("maxops", 60, "max ops per random history")
	races := flag.String("races", "races.ndjson", "race-round traces")
	nrace := flag.Int("nrace", 3000, "race rounds to run at most")
	nracekeep := flag.Int("nracekeep", 1200, "race rounds (with real overlap) to keep at most")
	flag.Parse()
	rng := rand.New(rand.NewSource(*seed))

	// shard counts: the fixed list of DESIGN.md + powers of two, divisors of 2^64-1 (3, 5, 255, 65535:
	// no remainder at the top of the hash space), large primes, and seeded random ones
	counts := []int{1, 2, 3, 4, 64, 73, 211, 1000, 5, 255, 256, 4096, 10007, 65535, 65536, 100003}
	for i := 0; i < *nextra; i++ {
		counts = append(counts, 1+rng.Intn(5000))
	}

	w := tr.Create(*out)
	nev := routeTrace(w, rng, 0, *nrand, "default")
	for _, n := range counts {
		nev += routeTrace(w, rng, n, *nrand, "prime")
	}
	w.Close()

	mw := tr.Create(*maps)
	small := []int{1, 2, 3, 4, 7, 64, 73, 211, 1000}
	if *plans != "" {
		files, _ := filepath.Glob(filepath.Join(*plans, "*.ndjson"))
		sort.Strings(files)
		for i, f := range files {
			p := readPlan(f)
			if len(p) == 0 || p[0].Op != "init" {
				tr.Fatal("plan %s does not start with init", f)
			}
			n := p[0].N
			if i%2 == 1 {
				n = small[(i/2)%len(small)]
			}
			base := filepath.Base(f)
			third := []string{"single", "lru", "lrux", "tiny", "tinyx"}[i%5]
			for j, v := range []string{"wide", "widex", third} {
				runPlan(mw, "plan:"+base, v, n, (i+3*j)%nSchemes, p[1:])
			}
		}
	}
	for i := 0; i < *nhist; i++ {
		v := variants[i%len(variants)]
		n := counts[rng.Intn(len(counts))]
		if n > 5000 {
			n = small[rng.Intn(len(small))]
		}
		runRandom(mw, rng, v, n, 10+rng.Intn(*maxops))
	}
	mw.Close()

	rw := tr.Create(*races)
	ran, kept := runRaces(rw, rng, *nrace, *nracekeep)
	rw.Close()
	fmt.Printf("route_events=%d map_events=%d race_events=%d race_rounds=%d race_rounds_with_overlap=%d\n",
		w.N(), mw.N(), rw.N(), ran, kept)
}
