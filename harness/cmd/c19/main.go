// c19: executes send/verify plans and seeded histories against neptune/vcode (real VCLogic from
// NewSimpleLogic, a fake SMS sender that captures the codes) and samples the nonce generator of
// idgen/random; records one ndjson event per call for validation by TLC
// (specs/vcode/VCode_Trace.tla).  The harness never judges a reply: it only chooses inputs.
package main

import (
	"bufio"
	"context"
	"encoding/json"
	"errors"
	"flag"
	"fmt"
	"io"
	"math"
	"math/rand"
	"os"
	"path/filepath"
	"sort"
	"strings"
	"time"

	"github.com/pinealctx/neptune/cache"
	"github.com/pinealctx/neptune/idgen/random"
	"github.com/pinealctx/neptune/tex"
	"github.com/pinealctx/neptune/vcode"
	"google.golang.org/grpc/codes"
	"google.golang.org/grpc/status"

	"verif/harness/internal/tr"
)

// ---------------------------------------------------------------- fake SMS gateway
// code is the string as handed over (retained, no copy); at is a private copy taken at that moment
// (what a real gateway transmits).
type msg struct{ area, phone, code, at string }

// The gateway is a callback of the code under test: besides delivering it can fail in every way
// a callback can (plain error, grpc status error, one of vcode's own error values, panic).
type fakeSMS struct {
	got    []msg
	fail   string // what the next SendCode does: "" deliver, "err", "status", "own", "panic"
	failed bool   // the gateway was contacted and failed
}

type gwPanic struct{}

// every sentinel error either side knows (vcode's own, the packages it imports, the standard
// library's and grpc's), plain and wrapped: each may come back from the gateway
var gwErrors = map[string]error{
	"vcode.ErrSendCountLimit":         vcode.ErrSendCountLimit,
	"vcode.ErrVerifyCodeRetryLimit":   vcode.ErrVerifyCodeRetryLimit,
	"vcode.ErrVerifyCodeNotExist":     vcode.ErrVerifyCodeNotExist,
	"vcode.ErrVerifyCodeTimeout":      vcode.ErrVerifyCodeTimeout,
	"vcode.ErrVerifyCodeNotMatch":     vcode.ErrVerifyCodeNotMatch,
	"vcode.ErrVerifyCodeHashNotMatch": vcode.ErrVerifyCodeHashNotMatch,
	"wrapped vcode.ErrSendTooFreq":    fmt.Errorf("gateway: %w", vcode.ErrSendTooFreq),
	"cache.ErrTTLKeyNotFound":         cache.ErrTTLKeyNotFound,
	"cache.ErrTTLKeyExists":           cache.ErrTTLKeyExists,
	"tex.ErrInvalidDuration":          tex.ErrInvalidDuration,
	"context.Canceled":                context.Canceled,
	"context.DeadlineExceeded":        context.DeadlineExceeded,
	"wrapped context.Canceled":        fmt.Errorf("send: %w", context.Canceled),
	"io.EOF":                          io.EOF,
	"io.ErrUnexpectedEOF":             io.ErrUnexpectedEOF,
	"status Canceled":                 status.Error(codes.Canceled, "canceled"),
	"status ResourceExhausted":        status.Error(codes.ResourceExhausted, "quota"),
	"status DeadlineExceeded":         status.Error(codes.DeadlineExceeded, "deadline"),
	"status NotFound empty":           status.Error(codes.NotFound, ""),
}

var gwKinds = func() []string {
	ks := []string{"err", "status", "own", "panic"}
	for k := range gwErrors {
		ks = append(ks, k)
	}
	sort.Strings(ks)
	return ks
}()

func (f *fakeSMS) SendCode(areaCode, phone, code string) error {
	f.got = append(f.got, msg{areaCode, phone, code, strings.Clone(code)})
	switch f.fail {
	case "err":
		f.failed = true
		return errors.New("sms gateway: connection refused")
	case "status":
		f.failed = true
		return status.Error(codes.Unavailable, "sms.gateway.unavailable")
	case "own":
		f.failed = true
		return vcode.ErrSendTooFreq
	default:
		if e, ok := gwErrors[f.fail]; ok {
			f.failed = true
			return e
		}
	case "panic":
		f.failed = true
		panic(gwPanic{})
	}
	return nil
}

// guard runs one call of the code under test: a panic is recovered, a call that does not come back
// within the watchdog time is reported as "hang" (the goroutine is abandoned; the harness then ends
// the run in an orderly way, see `hung`).  Both are observations for the spec, never a harness error.
var hung bool

const watchdog = 20 * time.Second

func guard(fn func()) (out string, pv interface{}) {
	done := make(chan struct{})
	go func() {
		defer close(done)
		defer func() {
			if x := recover(); x != nil {
				out, pv = fmt.Sprintf("panic: %v", x), x
			}
		}()
		fn()
	}()
	t := time.NewTimer(watchdog)
	defer t.Stop()
	select {
	case <-done:
		return out, pv
	case <-t.C:
		hung = true
		return "hang", nil
	}
}

func spin() {
	for t0 := time.Now(); time.Since(t0) < 2*time.Microsecond; {
	}
}

func clamp(v int) int {
	const lim = 1000000 // no history has that many calls: beyond it every value behaves alike
	if v > lim {
		return lim
	}
	if v < -lim {
		return -lim
	}
	return v
}

// ---------------------------------------------------------------- configuration (regimes)
type regime struct {
	Mock      bool `json:"mock"`
	Len       int  `json:"len"`
	TTL       bool `json:"ttl"` // true: a code never expires; false: always expired
	Gap       bool `json:"gap"` // true: min interval never violated; false: every re-send too early
	Win       bool `json:"win"` // true: one counting window for ever; false: every send renews it
	MaxCount  int  `json:"maxCount"`
	MaxVerify int  `json:"maxVerify"`
	// not part of a plan: chosen by the harness
	cache   int64 // CacheSize (0 = default, large)
	extreme bool  // durations may also be drawn from the sub-microsecond values
}

var (
	huge    = []time.Duration{time.Hour, 24 * time.Hour, 365 * 24 * time.Hour, math.MaxInt64}
	neg     = []time.Duration{-1, -time.Second, -time.Hour, math.MinInt64}
	nonPos  = []time.Duration{0, -1, -time.Hour, math.MinInt64}
	// sub-microsecond values: with the harness letting 2us pass after every send they fall into the
	// same regimes (lifetime always over / interval always respected / window always renewed)
	tinyOver = []time.Duration{0, 1, 100}
	tinyGap  = []time.Duration{1, 100}
	digits  = "0123456789"
	phonesA = []string{"23", "3", "13800138000", "5550100", "007", "9", "4915112345678", "1234", "0", "",
		strings.Repeat("7", 31), strings.Repeat("4", 32) + "1", strings.Repeat("90", 128), strings.Repeat("5", 257)}
	areasA = []string{"1", "12", "86", "49", "", "001", "", strings.Repeat("1", 64)}
)

func pick(rng *rand.Rand, ds []time.Duration) time.Duration { return ds[rng.Intn(len(ds))] }

func (g regime) config(rng *rand.Rand) (*vcode.Config, tr.E, bool) {
	size := g.cache
	if size == 0 {
		size = 1 << 16
	}
	c := &vcode.Config{CacheSize: size, Mock: g.Mock, CodeLen: g.Len, MaxCount: g.MaxCount,
		MaxVerifyCount: g.MaxVerify}
	var ttl, gap, win time.Duration
	tiny := false
	sub := func() bool { return g.extreme && rng.Intn(3) == 0 }
	if g.TTL {
		ttl = pick(rng, huge)
	} else if sub() {
		ttl, tiny = pick(rng, tinyOver), true
	} else {
		ttl = pick(rng, neg)
	}
	if !g.Gap {
		gap = pick(rng, huge)
	} else if sub() {
		gap, tiny = pick(rng, tinyGap), true
	} else {
		gap = pick(rng, nonPos)
	}
	if g.Win {
		win = pick(rng, huge)
	} else if g.MaxCount >= 0 && sub() {
		// (with a negative MaxCount the very first send of a pair would meet a window that is
		// exactly 0ns old: only strictly negative durations renew it for certain)
		win, tiny = pick(rng, tinyOver), true
	} else {
		win = pick(rng, neg)
	}
	c.TTL, c.MinInterval, c.CounterDuration = tex.Duration(ttl), tex.Duration(gap), tex.Duration(win)
	return c, tr.E{"ttl": ttl.String(), "min_interval": gap.String(), "counter_duration": win.String(),
		"cache_size": fmt.Sprint(size), "max_count": fmt.Sprint(g.MaxCount),
		"max_verify": fmt.Sprint(g.MaxVerify)}, tiny
}

// ---------------------------------------------------------------- one VCLogic lifetime
type pair struct{ area, phone string }

type sent struct{ code, hash string }

type pstate struct {
	cur, old sent
	has, had bool
}

// rec is one call as the harness saw it.  Strings are kept AS RETURNED / AS CAPTURED (no copy): for
// half of the histories they are rendered into the trace only when the history is over, so that a
// result that aliases memory the library reuses shows up as a changed record.
type rec struct {
	op         string
	p          pair
	r, class   string
	hash       string
	hashAt     string // private copy of the returned hash, taken at return
	sms        []msg
	code       string
	cref, href string
	raw        func() tr.E // events of another shape (runs)
}

func (x *rec) render() tr.E {
	if x.raw != nil {
		return x.raw()
	}
	if x.op == "send" {
		sms := make([]tr.E, 0, len(x.sms))
		stable := x.hash == x.hashAt // what was returned / handed over still reads the same
		for _, m := range x.sms {
			sms = append(sms, tr.E{"area": tr.Str(m.area), "phone": tr.Str(m.phone), "code": tr.Str(m.code)})
			stable = stable && m.code == m.at
		}
		return tr.E{"ev": "call", "a": tr.E{"op": "send", "p": pj(x.p), "r": x.r, "err": x.class,
			"hash": tr.Str(x.hash), "sms": sms, "stable": stable}}
	}
	return tr.E{"ev": "call", "a": tr.E{"op": "verify", "p": pj(x.p), "code": tr.Str(x.code),
		"hash": tr.Str(x.hash), "r": x.r, "err": x.class, "cref": x.cref, "href": x.href}}
}

type inst struct {
	w       *tr.W
	g       regime
	sms     *fakeSMS
	logic   vcode.VCLogic
	ps      map[pair]*pstate
	order   []pair // pairs in order of first successful send
	rng     *rand.Rand
	tiny    bool     // sub-microsecond durations in force: let time pass after a send
	late    bool     // render when the history is over
	reset   tr.E     // (late) the reset event
	pending []*rec   // (late) calls not yet rendered
	dead    bool     // a call hung: no further calls on this instance
}

func newInst(w *tr.W, rng *rand.Rand, g regime, src string, late bool) *inst {
	cfg, raw, tiny := g.config(rng)
	return newInstOn(w, rng, g, src, late, cfg, raw, tiny, &fakeSMS{})
}

// newInstOn builds a logic on a given Config and gateway (which a caller may share between logics).
func newInstOn(w *tr.W, rng *rand.Rand, g regime, src string, late bool, cfg *vcode.Config, raw tr.E,
	tiny bool, sms *fakeSMS) *inst {
	in := &inst{w: w, g: g, sms: sms, ps: map[pair]*pstate{}, rng: rng, tiny: tiny, late: late}
	// the third argument is ignored by the code today; a usable cache of the configured size is
	// passed so that honouring it would not change anything the property speaks about
	in.logic = vcode.NewSimpleLogic(cfg, sms, vcode.NewSimpleCache(cfg.CacheSize))
	in.reset = tr.E{"ev": "reset", "mock": g.Mock, "len": g.Len, "ttl": g.TTL, "gap": g.Gap, "win": g.Win,
		"maxCount": clamp(g.MaxCount), "maxVerify": clamp(g.MaxVerify), "src": src, "durations": raw,
		"late": late}
	if !late {
		w.Emit(in.reset)
	}
	return in
}

func (in *inst) log(x *rec) {
	if in.late {
		in.pending = append(in.pending, x)
		return
	}
	in.w.Emit(x.render())
}

// flush ends the history.
func (in *inst) flush() {
	if !in.late {
		return
	}
	in.w.Emit(in.reset)
	for _, x := range in.pending {
		in.w.Emit(x.render())
	}
	in.pending = nil
}

func pj(p pair) tr.E { return tr.E{"area": tr.Str(p.area), "phone": tr.Str(p.phone)} }

func sendClass(err error) string {
	switch status.Convert(err).Message() {
	case "send.code.freq.limit":
		return "freq"
	case "send.code.count.limit":
		return "count"
	}
	return "other: " + err.Error()
}

func verifyClass(err error) (r, class string) {
	switch status.Convert(err).Message() {
	case "verify.code.retry.limit":
		return "limit", "limit"
	case "verify.code.not.exist":
		return "fail", "noexist"
	case "verify.code.timeout":
		return "fail", "timeout"
	case "verify.code.not.match":
		return "fail", "nomatch"
	case "verify.hash.code.not.match":
		return "fail", "hash"
	}
	return "fail", "other: " + err.Error()
}

// mockCode is the harness's guess of the code in mock mode (an input choice, judged by the spec).
func mockCode(phone string, n int) string {
	if len(phone) >= n {
		return phone[len(phone)-n:]
	}
	return strings.Repeat("0", n-len(phone)) + phone
}

func (in *inst) send(p pair) { in.sendVia(p, "") }

// sendVia: one SendSMSCode call; gw tells the gateway how to behave if it is contacted.
func (in *inst) sendVia(p pair, gw string) {
	if in.dead {
		return
	}
	in.sms.got, in.sms.fail, in.sms.failed = nil, gw, false // a fresh slice: records keep the old one
	var hash string
	var err error
	out, pv := guard(func() { hash, err = in.logic.SendSMSCode(p.area, p.phone) })
	in.sms.fail = ""
	in.logSend(p, hash, err, out, pv, gw)
}

// logSend classifies one finished SendSMSCode call, logs it and remembers what it put in force.
func (in *inst) logSend(p pair, hash string, err error, out string, pv interface{}, gw string) {
	r, class := "ok", "none"
	_, gwp := pv.(gwPanic)
	switch {
	case out == "hang":
		r, class, in.dead = "hang", "no return within the watchdog time", true
	case out != "" && !(gwp && in.sms.failed):
		r, class = "panic", out
	case in.sms.failed: // the gateway was reached and failed; the caller got its failure (or nothing)
		r, class = "gw", "gateway "+gw
		if err != nil {
			class += ": " + err.Error()
		}
	case err != nil:
		r, class = "refused", sendClass(err)
	}
	in.log(&rec{op: "send", p: p, r: r, class: class, hash: hash, hashAt: strings.Clone(hash),
		sms: in.sms.got})
	if in.tiny {
		spin()
	}
	if r != "ok" && r != "gw" {
		return
	}
	// remember what to present later (inputs of later verifications; after a gateway failure the
	// new code is tried as well - whether it is in force is for the spec to find out)
	st := in.ps[p]
	if st == nil {
		st = &pstate{}
		in.ps[p] = st
		in.order = append(in.order, p)
	}
	code := ""
	if in.g.Mock {
		code = mockCode(p.phone, in.g.Len)
	} else if len(in.sms.got) > 0 {
		code = in.sms.got[len(in.sms.got)-1].code
	}
	if st.has {
		st.old, st.had = st.cur, true
	}
	st.cur, st.has = sent{code, hash}, true
}

func (in *inst) verify(p pair, code, hash, cref, href string) {
	if in.dead {
		return
	}
	var err error
	out, _ := guard(func() { err = in.logic.VerifySMSCode(p.area, p.phone, code, hash) })
	r, class := "ok", "none"
	switch {
	case out == "hang":
		r, class, in.dead = "hang", "no return within the watchdog time", true
	case out != "":
		r, class = "panic", out
	case err != nil:
		r, class = verifyClass(err)
	}
	in.log(&rec{op: "verify", p: p, r: r, class: class, code: code, hash: hash, cref: cref, href: href})
}

// ---------------------------------------------------------------- runs of identical calls
// A run is `times` identical calls logged as ONE event with the replies run-length encoded (a
// history of 65537 calls stays one line).  The replies are what the calls returned; a panic or a
// hang ends the run and is logged as a call of its own.
type seg struct {
	r string
	c int
}

func rle(segs []seg) []tr.E {
	out := make([]tr.E, 0, len(segs))
	for _, x := range segs {
		out = append(out, tr.E{"r": x.r, "c": x.c})
	}
	return out
}

const maxSegs = 64

// batch runs fn up to n times in one watched goroutine; fn returns the reply class of one call
// ("" = stop before this call counts).  Returns the encoded replies, the number of calls made,
// and "panic: .." / "hang" when the last call (not counted) ended that way.
func batch(n int, fn func() string) (segs []seg, made int, bad string) {
	done := make(chan struct{})
	var cur []seg
	var m int
	var b string
	go func() {
		defer close(done)
		for i := 0; i < n; i++ {
			var r string
			func() {
				defer func() {
					if x := recover(); x != nil {
						b = fmt.Sprintf("panic: %v", x)
					}
				}()
				r = fn()
			}()
			if b != "" || r == "" {
				return
			}
			if len(cur) > 0 && cur[len(cur)-1].r == r {
				cur[len(cur)-1].c++
			} else if len(cur) == maxSegs {
				return // a new run event takes the rest
			} else {
				cur = append(cur, seg{r, 1})
			}
			m++
		}
	}()
	t := time.NewTimer(watchdog)
	defer t.Stop()
	select {
	case <-done:
		return cur, m, b
	case <-t.C:
		hung = true
		return nil, 0, "hang"
	}
}

func (in *inst) verifyRun(p pair, code, hash, cref, href string, times int) {
	for times > 0 && !in.dead {
		segs, made, bad := batch(times, func() string {
			err := in.logic.VerifySMSCode(p.area, p.phone, code, hash)
			if err == nil {
				return "ok"
			}
			r, _ := verifyClass(err)
			return r
		})
		if made > 0 {
			m, sg := made, segs
			in.log(&rec{raw: func() tr.E {
				return tr.E{"ev": "run", "times": m, "rle": rle(sg), "a": tr.E{"op": "verify", "p": pj(p),
					"code": tr.Str(code), "hash": tr.Str(hash), "cref": cref, "href": href}}
			}})
		}
		times -= made
		if bad == "hang" {
			in.dead = true
			in.log(&rec{op: "verify", p: p, r: "hang", class: "no return within the watchdog time",
				code: code, hash: hash, cref: cref, href: href})
			return
		}
		if bad != "" {
			in.log(&rec{op: "verify", p: p, r: "panic", class: bad, code: code, hash: hash, cref: cref, href: href})
			times--
		}
		if made == 0 && bad == "" {
			return
		}
	}
}

// sendRun repeats a send as long as it is plainly refused (error, nothing reached the gateway); a
// call that ends otherwise ends the run and is logged after it as the ordinary call it was.
func (in *inst) sendRun(p pair, times int) {
	if in.dead {
		return
	}
	type res struct {
		hash string
		err  error
	}
	var extra *res
	segs, made, bad := batch(times, func() string {
		in.sms.got, in.sms.fail, in.sms.failed = nil, "", false
		hash, err := in.logic.SendSMSCode(p.area, p.phone)
		if err == nil || len(in.sms.got) > 0 || hash != "" {
			extra = &res{hash, err}
			return ""
		}
		return "refused"
	})
	if made > 0 {
		m, sg := made, segs
		in.log(&rec{raw: func() tr.E {
			return tr.E{"ev": "run", "times": m, "rle": rle(sg), "a": tr.E{"op": "send", "p": pj(p),
				"nsms": 0, "stable": true}}
		}})
	}
	switch {
	case bad == "hang":
		in.dead = true
		in.log(&rec{op: "send", p: p, r: "hang", class: "no return within the watchdog time"})
	case bad != "":
		in.log(&rec{op: "send", p: p, r: "panic", class: bad, sms: in.sms.got})
	case extra != nil:
		in.logSend(p, extra.hash, extra.err, "", nil, "")
	}
}

// other pair with a code in force (first in order of first send)
func (in *inst) other(p pair) (pair, bool) {
	for _, q := range in.order {
		if q != p {
			return q, true
		}
	}
	return p, false
}

func (in *inst) badCode(p pair) string {
	st := in.ps[p]
	base := strings.Repeat("0", in.g.Len)
	if st != nil && st.has && st.cur.code != "" {
		base = st.cur.code
	}
	switch in.rng.Intn(9) {
	case 0:
		return "!"
	case 1:
		return ""
	case 2:
		return base + "0" // one too long
	case 6:
		return base + base // the right token, then more
	case 7:
		return " " + base
	case 8:
		return base + " "
	case 3:
		if len(base) > 0 {
			return base[:len(base)-1] // one too short
		}
		return "1"
	default: // one digit changed
		if len(base) == 0 {
			return "1"
		}
		b := []byte(base)
		i := in.rng.Intn(len(b))
		if b[i] >= '0' && b[i] <= '9' {
			b[i] = '0' + (b[i]-'0'+1+byte(in.rng.Intn(9)))%10
		} else {
			b[i] = '0'
		}
		return string(b)
	}
}

func (in *inst) badHash(p pair) string {
	st := in.ps[p]
	base := "00000000000000000000000000000000"
	if st != nil && st.has && st.cur.hash != "" {
		base = st.cur.hash
	}
	switch in.rng.Intn(8) {
	case 0:
		return ""
	case 1:
		return "0"
	case 6:
		return base + base
	case 7:
		return " " + base
	case 2:
		up := strings.ToUpper(base)
		if up != base {
			return up
		}
		return base + "0"
	case 3:
		return base[:len(base)-1]
	case 4:
		return base + "0"
	default:
		b := []byte(base)
		i := in.rng.Intn(len(b))
		if b[i] == 'f' {
			b[i] = '0'
		} else if b[i] == '9' {
			b[i] = 'a'
		} else {
			b[i]++
		}
		return string(b)
	}
}

// refCode / refHash resolve the plan's references to values of the real run.
func (in *inst) refCode(p pair, ref string) string {
	st := in.ps[p]
	switch ref {
	case "cur":
		if st != nil && st.has {
			return st.cur.code
		}
	case "old":
		if st != nil && st.had {
			return st.old.code
		}
	case "oth":
		if q, ok := in.other(p); ok {
			return in.ps[q].cur.code
		}
	}
	return in.badCode(p)
}

func (in *inst) refHash(p pair, ref string) string {
	st := in.ps[p]
	switch ref {
	case "cur":
		if st != nil && st.has {
			return st.cur.hash
		}
	case "old":
		if st != nil && st.had {
			return st.old.hash
		}
	case "oth":
		if q, ok := in.other(p); ok {
			return in.ps[q].cur.hash
		}
	}
	return in.badHash(p)
}

// ---------------------------------------------------------------- plans from TLC
type planStep struct {
	Op string `json:"op"`
	regime
	P struct {
		Area  []int `json:"area"`
		Phone []int `json:"phone"`
	} `json:"p"`
	Cref string `json:"cref"`
	Href string `json:"href"`
}

func str(codes []int) string {
	b := make([]byte, len(codes))
	for i, c := range codes {
		b[i] = byte(c)
	}
	return string(b)
}

func readPlan(path string) []planStep {
	f, err := os.Open(path)
	if err != nil {
		tr.Fatal("%v", err)
	}
	defer f.Close()
	var out []planStep
	sc := bufio.NewScanner(f)
	sc.Buffer(make([]byte, 1<<20), 1<<20)
	for sc.Scan() {
		var s planStep
		if err := json.Unmarshal(sc.Bytes(), &s); err != nil {
			tr.Fatal("plan %s: %v", path, err)
		}
		out = append(out, s)
	}
	return out
}

func runPlan(w *tr.W, rng *rand.Rand, name string, steps []planStep) {
	if len(steps) == 0 || steps[0].Op != "init" {
		tr.Fatal("plan %s does not start with init", name)
	}
	g := steps[0].regime
	seen := map[pair]bool{}
	for _, s := range steps[1:] {
		if s.Op == "send" || s.Op == "verify" {
			seen[pair{str(s.P.Area), str(s.P.Phone)}] = true
		}
	}
	switch rng.Intn(3) {
	case 0:
		g.cache = int64(len(seen)) // exactly as many entries as pairs: nothing may be evicted
	case 1:
		g.cache = math.MaxInt64
	}
	g.extreme = true
	in := newInst(w, rng, g, "plan:"+name, rng.Intn(2) == 0)
	defer in.flush()
	for _, s := range steps[1:] {
		p := pair{str(s.P.Area), str(s.P.Phone)}
		switch s.Op {
		case "send":
			in.send(p)
		case "verify":
			in.verify(p, in.refCode(p, s.Cref), in.refHash(p, s.Href), s.Cref, s.Href)
		case "end":
		default:
			tr.Fatal("plan %s: unknown op %q", name, s.Op)
		}
	}
}

// ---------------------------------------------------------------- seeded histories
func randRegime(rng *rand.Rand) regime {
	lens := []int{0, 1, 1, 2, 3, 4, 4, 6, 6, 8, 12, 33, 100}
	if rng.Intn(4) == 0 { // lengths around the powers of two (builder growth, hash blocks, byte widths)
		lens = []int{7, 8, 9, 15, 16, 17, 31, 32, 33, 63, 64, 65, 127, 128, 129, 255, 256, 257}
	}
	g := regime{Mock: rng.Intn(2) == 0, Len: lens[rng.Intn(len(lens))], TTL: rng.Intn(4) != 0,
		Gap: rng.Intn(3) != 0, Win: rng.Intn(2) == 0, MaxCount: rng.Intn(5), MaxVerify: rng.Intn(6),
		extreme: true}
	// ends of the integer range and negative limits (logged clamped: no history is that long)
	switch rng.Intn(12) {
	case 0:
		g.MaxCount = -1
	case 1:
		g.MaxCount = math.MaxInt
	case 2:
		g.MaxCount = math.MinInt
	}
	switch rng.Intn(12) {
	case 0:
		g.MaxVerify = -1
	case 1:
		g.MaxVerify = math.MaxInt
	case 2:
		g.MaxVerify = math.MinInt
	}
	return g
}

func randPairs(rng *rand.Rand) []pair {
	// always the two pairs that concatenate alike, plus a random selection
	ps := []pair{{"1", "23"}, {"12", "3"}}
	if rng.Intn(3) == 0 { // more pairs whose concatenation is the same string
		fam := [][]pair{{{"", "123"}, {"123", ""}}, {{"8", "61380013"}, {"86", "1380013"}},
			{{"", "8613800"}, {"86", "13800"}}}[rng.Intn(3)]
		ps = append(ps, fam...)
	}
	n := rng.Intn(5)
	for i := 0; i < n; i++ {
		p := pair{areasA[rng.Intn(len(areasA))], phonesA[rng.Intn(len(phonesA))]}
		dup := false
		for _, q := range ps {
			dup = dup || q == p
		}
		if !dup {
			ps = append(ps, p)
		}
	}
	rng.Shuffle(len(ps), func(i, j int) { ps[i], ps[j] = ps[j], ps[i] })
	return ps
}

var refs = []string{"cur", "cur", "cur", "cur", "old", "oth", "bad"}

func runRandom(w *tr.W, rng *rand.Rand, nops int) {
	g := randRegime(rng)
	ps := randPairs(rng)
	switch rng.Intn(3) {
	case 0:
		g.cache = int64(len(ps)) // exactly as many entries as pairs: nothing may be evicted
	case 1:
		g.cache = math.MaxInt64
	}
	in := newInst(w, rng, g, "rand", rng.Intn(2) == 0)
	defer in.flush()
	gwLeft := 3 // gateway failures per history (each one leaves the spec a choice)
	// a focus pair gets most of the traffic so that limits are reached
	for i := 0; i < nops && !in.dead; i++ {
		p := ps[0]
		if rng.Intn(3) == 0 {
			p = ps[rng.Intn(len(ps))]
		}
		if rng.Intn(100) < 35 {
			gw := ""
			if !g.Mock && gwLeft > 0 && rng.Intn(12) == 0 {
				gw = gwKinds[rng.Intn(len(gwKinds))]
				gwLeft--
			}
			in.sendVia(p, gw)
			continue
		}
		cref, href := refs[rng.Intn(len(refs))], refs[rng.Intn(len(refs))]
		if rng.Intn(2) == 0 {
			cref, href = "cur", "cur"
		}
		in.verify(p, in.refCode(p, cref), in.refHash(p, href), cref, href)
	}
}

// guessing: one code sent, the harness enumerates guesses; the right one comes late.
func runGuess(w *tr.W, rng *rand.Rand) {
	g := regime{Mock: rng.Intn(2) == 0, Len: 1 + rng.Intn(2), TTL: true, Gap: true, Win: false,
		MaxCount: 1, MaxVerify: rng.Intn(8)}
	g.cache = 1 // one pair, one entry
	in := newInst(w, rng, g, "guess", rng.Intn(2) == 0)
	defer in.flush()
	p := pair{"86", phonesA[rng.Intn(len(phonesA))]}
	in.send(p)
	n := g.MaxVerify + 3
	for i := 0; i < n; i++ {
		cref := "bad"
		if i >= n-3 || rng.Intn(6) == 0 {
			cref = "cur"
		}
		in.verify(p, in.refCode(p, cref), in.refHash(p, "cur"), cref, "cur")
		if rng.Intn(8) == 0 {
			in.send(p) // a new send resets the attempts
		}
	}
}

// ---------------------------------------------------------------- long histories around integer widths
// Runs of W-1 / W / W+1 identical calls (W = 256, 65536) against one sent code, with the limit both
// small and around W: wrong code, right code after the lock, right code before it, refused sends.
func around(rng *rand.Rand, big bool) int {
	w := 256
	if big {
		w = 65536
	}
	return w - 1 + rng.Intn(3)
}

func runLong(w *tr.W, rng *rand.Rand, allowBig bool) {
	big := allowBig && rng.Intn(3) == 0
	g := regime{Mock: rng.Intn(2) == 0, Len: []int{1, 4, 6}[rng.Intn(3)], TTL: rng.Intn(5) != 0,
		Gap: rng.Intn(2) == 0, Win: rng.Intn(2) == 0, MaxCount: rng.Intn(3), MaxVerify: rng.Intn(6)}
	switch rng.Intn(4) {
	case 0:
		g.MaxVerify = around(rng, big) - 1 + rng.Intn(3) // W-2 .. W+2
	case 1:
		g.MaxVerify = math.MaxInt
	}
	g.cache = 2
	in := newInst(w, rng, g, "long", rng.Intn(2) == 0)
	defer in.flush()
	p, q := pair{"86", "13800138000"}, pair{"1", "23"}
	in.send(p)
	in.send(q)
	for round := 0; round < 2+rng.Intn(3) && !in.dead; round++ {
		switch rng.Intn(5) {
		case 0: // wrong code all the way
			in.verifyRun(p, in.refCode(p, "bad"), in.refHash(p, "cur"), "bad", "cur", around(rng, big))
		case 1: // right code all the way
			in.verifyRun(p, in.refCode(p, "cur"), in.refHash(p, "cur"), "cur", "cur", around(rng, big))
		case 2: // right code, wrong hash
			in.verifyRun(p, in.refCode(p, "cur"), in.refHash(p, "bad"), "cur", "bad", around(rng, big))
		case 3: // sends that are refused (if they are)
			in.sendRun(p, around(rng, big))
		case 4: // a pair that never got a code
			r := pair{"49", "15112345678"}
			in.verifyRun(r, in.refCode(p, "cur"), in.refHash(p, "cur"), "oth", "oth", around(rng, false))
		}
		// probes after the run: the right code for p, and the bystander q is untouched
		in.verify(p, in.refCode(p, "cur"), in.refHash(p, "cur"), "cur", "cur")
		in.verify(q, in.refCode(q, "cur"), in.refHash(q, "cur"), "cur", "cur")
		if rng.Intn(4) == 0 {
			in.send(p) // a new send resets the attempts (where it is not refused)
		}
	}
}

// bursts: MaxCount around 256 (thorough: around 65536) in the one-window regime, MaxCount+3 sends,
// every one logged (each puts a new code in force).
func runBurst(w *tr.W, rng *rand.Rand, big bool) {
	g := regime{Mock: rng.Intn(2) == 0, Len: 4, TTL: true, Gap: true, Win: true,
		MaxCount: around(rng, big) - 1 + rng.Intn(3), MaxVerify: 2}
	g.cache = 1
	in := newInst(w, rng, g, "burst", false)
	p := pair{"86", "13800138000"}
	for i := 0; i < g.MaxCount+4 && !in.dead; i++ {
		in.send(p)
	}
	in.verify(p, in.refCode(p, "cur"), in.refHash(p, "cur"), "cur", "cur")
}

// twins: one caller, one Config value and one gateway shared by two logics (what a service with two
// endpoints does).  Each logic must behave as if it were alone: its calls are recorded into a trace
// of its own, the calls of the two are interleaved.
func runTwin(w *tr.W, rng *rand.Rand, nops int) {
	g := randRegime(rng)
	ps := randPairs(rng)
	if len(ps) > 3 {
		ps = ps[:3]
	}
	if rng.Intn(2) == 0 {
		g.cache = int64(len(ps))
	}
	cfg, raw, tiny := g.config(rng)
	sms := &fakeSMS{}
	a := newInstOn(w, rng, g, "twin-a", true, cfg, raw, tiny, sms)
	var b *inst
	if rng.Intn(2) == 0 {
		b = newInstOn(w, rng, g, "twin-b", true, cfg, raw, tiny, sms)
	} else {
		// consecutive configurations in one process: another regime / code length / mode on the same
		// pairs, call by call between the calls of the first (nothing of one may reach the other)
		g2 := randRegime(rng)
		g2.cache = g.cache
		cfg2, raw2, tiny2 := g2.config(rng)
		b = newInstOn(w, rng, g2, "twin-other-config", true, cfg2, raw2, tiny2, sms)
	}
	for i := 0; i < nops && !a.dead && !b.dead; i++ {
		in := a
		if rng.Intn(2) == 0 {
			in = b
		}
		p := ps[rng.Intn(len(ps))]
		if rng.Intn(100) < 40 {
			in.send(p)
			continue
		}
		cref, href := "cur", "cur"
		if rng.Intn(3) == 0 {
			cref, href = refs[rng.Intn(len(refs))], refs[rng.Intn(len(refs))]
		}
		in.verify(p, in.refCode(p, cref), in.refHash(p, href), cref, href)
	}
	a.flush()
	b.flush()
}

// ---------------------------------------------------------------- alphabet samples
// codes handed to the SMS gateway: at least `chars` characters in total
func runCodeSample(w *tr.W, rng *rand.Rand, codeLen, chars int) {
	g := regime{Mock: false, Len: codeLen, TTL: true, Gap: true, Win: false, MaxCount: 0, MaxVerify: 2}
	in := newInst(w, rng, g, "sample", false)
	ps := []pair{{"86", "13800138000"}, {"1", "5550100"}, {"49", "15112345678"}}
	total := 0
	for i := 0; total < chars && !in.dead; i++ {
		p := ps[i%len(ps)]
		in.send(p)
		if len(in.sms.got) != 1 || len(in.sms.got[0].code) != codeLen {
			break // the spec has already been given a line it rejects
		}
		total += len(in.sms.got[0].code)
	}
	w.Emit(tr.E{"ev": "cover", "what": "codes", "alpha": tr.Str(digits), "chars": total})
}

// per-position histogram: for each position of the output the set of characters seen
type posHist struct {
	sets []map[byte]bool
	bad  int
	n    int
}

func newPosHist(length int) *posHist {
	h := &posHist{sets: make([]map[byte]bool, length)}
	for i := range h.sets {
		h.sets[i] = map[byte]bool{}
	}
	return h
}

func (h *posHist) add(out, alpha string) {
	h.n++
	if len(out) != len(h.sets) {
		h.bad++
		return
	}
	for i := 0; i < len(out); i++ {
		if !strings.Contains(alpha, out[i:i+1]) {
			h.bad++
			return
		}
	}
	for i := 0; i < len(out); i++ {
		h.sets[i][out[i]] = true
	}
}

func (h *posHist) event(what, alpha string) tr.E {
	pos := make([][]int, len(h.sets))
	for i, m := range h.sets {
		pos[i] = make([]int, 0, len(m))
		for c := range m {
			pos[i] = append(pos[i], int(c))
		}
		sort.Ints(pos[i])
	}
	return tr.E{"ev": "alpha", "what": what, "alpha": tr.Str(alpha), "len": len(h.sets), "n": h.n,
		"pos": pos, "bad": h.bad}
}

// codes handed to the gateway, judged per position: 45*|alphabet| successful sends of one code
// length; only the histogram is logged (a send that is not a plain success is logged as a call).
func runCodePos(w *tr.W, rng *rand.Rand, codeLen int) {
	g := regime{Mock: false, Len: codeLen, TTL: true, Gap: true, Win: false, MaxCount: 0, MaxVerify: 2}
	in := newInst(w, rng, g, "positions", false)
	ps := []pair{{"86", "13800138000"}, {"1", "5550100"}}
	h := newPosHist(codeLen)
	for i := 0; i < 45*len(digits) && !in.dead; i++ {
		p := ps[i%len(ps)]
		in.sms.got, in.sms.fail, in.sms.failed = nil, "", false
		var hash string
		var err error
		out, pv := guard(func() { hash, err = in.logic.SendSMSCode(p.area, p.phone) })
		if out != "" || err != nil || len(in.sms.got) != 1 {
			in.logSend(p, hash, err, out, pv, "")
			break
		}
		h.add(in.sms.got[0].code, digits)
	}
	w.Emit(h.event("codes", digits))
}

// the generators themselves, per position
func runNoncePos(w *tr.W, fn, alpha string, length int) {
	w.Emit(tr.E{"ev": "reset", "mock": false, "len": 0, "ttl": true, "gap": true, "win": false,
		"maxCount": 0, "maxVerify": 0, "src": "positions:" + fn, "durations": tr.E{"none": true},
		"late": false})
	h := newPosHist(length)
	for i := 0; i < 45*len(alpha); i++ {
		var out string
		pan, _ := guard(func() {
			if fn == "sec" {
				out = random.SecGenNonceStr(alpha, length)
			} else {
				out = random.GenNonceStr(alpha, length)
			}
		})
		if pan != "" {
			w.Emit(tr.E{"ev": "nonce", "fn": fn, "alpha": tr.Str(alpha), "n": length, "out": []int{},
				"panic": true, "msg": pan})
			return
		}
		h.add(out, alpha)
	}
	w.Emit(h.event("nonce", alpha))
}

// alternating: the generators called back to back with changing alphabets and lengths (nothing
// computed for one call may serve the next), lengths around the powers of two, the degenerate ones
// (length 0, alphabet of one character, empty alphabet with length 0); every output is logged.
func runNonceAlternating(w *tr.W, rng *rand.Rand, rounds int) {
	w.Emit(tr.E{"ev": "reset", "mock": false, "len": 0, "ttl": true, "gap": true, "win": false,
		"maxCount": 0, "maxVerify": 0, "src": "nonce:alternating", "durations": tr.E{"none": true},
		"late": false})
	alphas := []string{digits, "ab", "x", "ACGT", "0123456789abcdef", "abcdefghij", "xy", "wxyz", "y",
		"abcdefghijklmnopqrstuvwxyzABCDEFGHIJKLMNOPQRSTUVWXYZ0123456789"}
	lens := []int{0, 1, 2, 6, 9, 10, 11, 31, 32, 33, 63, 64, 65, 255, 256, 257}
	big := []int{1023, 1024, 1025, 4095, 4096, 4097}
	// A, B, A with the same length and alphabets of the same size but no common character, then random
	type call struct {
		fn, alpha string
		k         int
	}
	var calls []call
	for _, fn := range []string{"sec", "plain"} {
		for _, ab := range [][2]string{{digits, "abcdefghij"}, {"ab", "xy"}, {"ACGT", "wxyz"}, {"x", "y"}} {
			for _, k := range []int{1, 6, 10, 32} {
				calls = append(calls, call{fn, ab[0], k}, call{fn, ab[1], k}, call{fn, ab[0], k})
			}
		}
	}
	for i := 0; i < rounds; i++ {
		c := call{"sec", alphas[rng.Intn(len(alphas))], lens[rng.Intn(len(lens))]}
		if rng.Intn(2) == 0 {
			c.fn = "plain"
		}
		if rng.Intn(25) == 0 {
			c.k = big[rng.Intn(len(big))]
		}
		if rng.Intn(20) == 0 {
			c.alpha, c.k = "", 0
		}
		calls = append(calls, c)
	}
	for _, c := range calls {
		alpha, k, fn := c.alpha, c.k, c.fn
		var out string
		pan, _ := guard(func() {
			if fn == "sec" {
				out = random.SecGenNonceStr(alpha, k)
			} else {
				out = random.GenNonceStr(alpha, k)
			}
		})
		if pan == "hang" {
			out = ""
		}
		w.Emit(tr.E{"ev": "nonce", "fn": fn, "alpha": tr.Str(alpha), "n": k, "out": tr.Str(out),
			"panic": pan != "", "msg": pan})
		if pan != "" {
			return
		}
	}
}

// direct samples of idgen/random's generators over several alphabets
func runNonceSample(w *tr.W, rng *rand.Rand, fn, alpha string, n int) {
	w.Emit(tr.E{"ev": "reset", "mock": false, "len": 0, "ttl": true, "gap": true, "win": false,
		"maxCount": 0, "maxVerify": 0, "src": "nonce:" + fn, "durations": tr.E{"none": true}})
	need := 300*len(alpha) + 1
	total := 0
	for total < need {
		k := n
		if rng.Intn(10) == 0 {
			k = rng.Intn(3) // also tiny outputs, including the empty one
		}
		var out string
		pan, _ := guard(func() {
			if fn == "sec" {
				out = random.SecGenNonceStr(alpha, k)
			} else {
				out = random.GenNonceStr(alpha, k)
			}
		})
		if pan == "hang" {
			out = "" // the abandoned call may still write it
		}
		w.Emit(tr.E{"ev": "nonce", "fn": fn, "alpha": tr.Str(alpha), "n": k, "out": tr.Str(out),
			"panic": pan != "", "msg": pan})
		if pan != "" {
			return // rejected by the spec at this line
		}
		total += k
	}
	w.Emit(tr.E{"ev": "cover", "what": "nonce", "alpha": tr.Str(alpha), "chars": total})
}

func main() {
	plans := flag.String("plans", "", "directory of TLC-generated plans")
	out := flag.String("out", "calls.ndjson", "send/verify traces")
	sample := flag.String("sample", "sample.ndjson", "alphabet sample traces")
	seed := flag.Int64("seed", 1, "seed")
	nrand := flag.Int("rand", 300, "random histories")
	nguess := flag.Int("guess", 100, "guessing histories")
	ntwin := flag.Int("twin", 60, "twin histories (two logics on one Config and gateway)")
	nlong := flag.Int("long", 40, "long histories (runs around 256 / 65536 identical calls)")
	nburst := flag.Int("burst", 2, "send bursts with MaxCount around 256")
	full := flag.Bool("full", false, "thorough: every code length 1..40, a send burst around 65536")
	maxops := flag.Int("maxops", 60, "max ops per random history")
	nsample := flag.Int("nsample", 1, "code samples per code length")
	chars := flag.Int("chars", 12000, "characters per code sample")
	flag.Parse()
	rng := rand.New(rand.NewSource(*seed))

	w := tr.Create(*out)
	w.NoSync = true
	if *plans != "" {
		files, _ := filepath.Glob(filepath.Join(*plans, "*.ndjson"))
		sort.Strings(files)
		for _, f := range files {
			if hung {
				break
			}
			runPlan(w, rng, filepath.Base(f), readPlan(f))
		}
	}
	for i := 0; i < *nrand && !hung; i++ {
		runRandom(w, rng, 10+rng.Intn(*maxops))
	}
	for i := 0; i < *nguess && !hung; i++ {
		runGuess(w, rng)
	}
	for i := 0; i < *ntwin && !hung; i++ {
		runTwin(w, rng, 10+rng.Intn(*maxops))
	}
	for i := 0; i < *nlong && !hung; i++ {
		runLong(w, rng, true)
	}
	for i := 0; i < *nburst && !hung; i++ {
		runBurst(w, rng, false)
	}
	if *full && !hung {
		runBurst(w, rng, true)
	}
	w.Close()

	sw := tr.Create(*sample)
	sw.NoSync = true
	for i := 0; i < *nsample && !hung; i++ {
		for _, l := range []int{6, 4, 40} {
			if !hung {
				runCodeSample(sw, rng, l, *chars)
			}
		}
	}
	for _, fn := range []string{"sec", "plain"} {
		for _, alpha := range []string{digits, "ab", "x", "ACGT", "0123456789abcdef",
			"abcdefghijklmnopqrstuvwxyzABCDEFGHIJKLMNOPQRSTUVWXYZ0123456789"} {
			if !hung {
				runNonceSample(sw, rng, fn, alpha, 96+rng.Intn(64))
			}
		}
	}
	if !hung {
		runNonceAlternating(sw, rng, map[bool]int{false: 300, true: 3000}[*full])
	}
	lens := []int{1, 2, 6, 9, 10, 11, 12, 20, 21, 32, 33, 40, 64}
	if *full {
		lens = lens[:0]
		for l := 1; l <= 40; l++ {
			lens = append(lens, l)
		}
		lens = append(lens, 63, 64, 65, 128, 257)
	}
	for _, l := range lens {
		if !hung {
			runCodePos(sw, rng, l)
		}
	}
	for _, fn := range []string{"sec", "plain"} {
		for _, alpha := range []string{digits, "ab", "ACGT", "0123456789abcdef",
			"abcdefghijklmnopqrstuvwxyzABCDEFGHIJKLMNOPQRSTUVWXYZ0123456789"} {
			for _, l := range []int{1, 7, 33, 70} {
				if !hung && (*full || fn == "sec" || l == 70) {
					runNoncePos(sw, fn, alpha, l)
				}
			}
		}
	}
	sw.Close()
	fmt.Printf("call_events=%d sample_events=%d hung=%v\n", w.N(), sw.N(), hung)
	// a hung call is still spinning in its goroutine: leave at once (the traces are complete)
	os.Exit(0)
}
