// c19: executes send/verify plans and seeded histories against neptune/vcode (real VCLogic from
// NewSimpleLogic, a fake SMS sender that captures the codes) and samples the nonce generator of
// idgen/random; records one ndjson event per call for validation by TLC
// (specs/vcode/VCode_Trace.tla).  The harness never judges a reply: it only chooses inputs.
package main

import (
	"bufio"
	"encoding/json"
	"flag"
	"fmt"
	"math"
	"math/rand"
	"os"
	"path/filepath"
	"sort"
	"strings"
	"time"

	"github.com/pinealctx/neptune/idgen/random"
	"github.com/pinealctx/neptune/tex"
	"github.com/pinealctx/neptune/vcode"
	"google.golang.org/grpc/status"

	"verif/harness/internal/tr"
)

// ---------------------------------------------------------------- fake SMS gateway
type msg struct{ area, phone, code string }

type fakeSMS struct{ got []msg }

func (f *fakeSMS) SendCode(areaCode, phone, code string) error {
	f.got = append(f.got, msg{areaCode, phone, code})
	return nil
}

// ---------------------------------------------------------------- configuration (regimes)
type regime struct {
	Mock      bool `json:"mock"`
	Len       int  `json:"len"`
	TTL       bool `json:"ttl"` // true: a code never expires; false: always expired
	Gap       bool `json:"gap"` // true: min interval never violated; false: every re-send too early
	Win       bool `json:"win"` // true: one counting window for ever; false: every send renews it
	MaxCount  int  `json:"maxCount"`
	MaxVerify int  `json:"maxVerify"`
}

var (
	huge    = []time.Duration{time.Hour, 24 * time.Hour, 365 * 24 * time.Hour, math.MaxInt64}
	neg     = []time.Duration{-1, -time.Second, -time.Hour, math.MinInt64}
	nonPos  = []time.Duration{0, -1, -time.Hour, math.MinInt64}
	digits  = "0123456789"
	phonesA = []string{"23", "3", "13800138000", "5550100", "007", "9", "4915112345678", "1234", "0"}
	areasA  = []string{"1", "12", "86", "49", "", "001"}
)

func pick(rng *rand.Rand, ds []time.Duration) time.Duration { return ds[rng.Intn(len(ds))] }

func (g regime) config(rng *rand.Rand) (*vcode.Config, tr.E) {
	c := &vcode.Config{CacheSize: 1 << 16, Mock: g.Mock, CodeLen: g.Len, MaxCount: g.MaxCount,
		MaxVerifyCount: g.MaxVerify}
	var ttl, gap, win time.Duration
	if g.TTL {
		ttl = pick(rng, huge)
	} else {
		ttl = pick(rng, neg)
	}
	if g.Gap {
		gap = pick(rng, nonPos)
	} else {
		gap = pick(rng, huge)
	}
	if g.Win {
		win = pick(rng, huge)
	} else {
		win = pick(rng, neg)
	}
	c.TTL, c.MinInterval, c.CounterDuration = tex.Duration(ttl), tex.Duration(gap), tex.Duration(win)
	return c, tr.E{"ttl": ttl.String(), "min_interval": gap.String(), "counter_duration": win.String()}
}

// ---------------------------------------------------------------- one VCLogic lifetime
type pair struct{ area, phone string }

type sent struct{ code, hash string }

type pstate struct {
	cur, old sent
	has, had bool
}

type inst struct {
	w     *tr.W
	g     regime
	sms   *fakeSMS
	logic vcode.VCLogic
	ps    map[pair]*pstate
	order []pair // pairs in order of first successful send
	rng   *rand.Rand
}

func newInst(w *tr.W, rng *rand.Rand, g regime, src string) *inst {
	cfg, raw := g.config(rng)
	sms := &fakeSMS{}
	in := &inst{w: w, g: g, sms: sms, ps: map[pair]*pstate{}, rng: rng}
	in.logic = vcode.NewSimpleLogic(cfg, sms, nil)
	w.Emit(tr.E{"ev": "reset", "mock": g.Mock, "len": g.Len, "ttl": g.TTL, "gap": g.Gap, "win": g.Win,
		"maxCount": g.MaxCount, "maxVerify": g.MaxVerify, "src": src, "durations": raw})
	return in
}

func pj(p pair) tr.E { return tr.E{"area": tr.Str(p.area), "phone": tr.Str(p.phone)} }

func sendClass(err error) string {
	switch status.Convert(err).Message() {
	case "send.code.freq.limit":
		return "freq"
	case "send.code.count.limit":
		return "count"
	}
	return "other: " + err.Error()
}

func verifyClass(err error) (r, class string) {
	switch status.Convert(err).Message() {
	case "verify.code.retry.limit":
		return "limit", "limit"
	case "verify.code.not.exist":
		return "fail", "noexist"
	case "verify.code.timeout":
		return "fail", "timeout"
	case "verify.code.not.match":
		return "fail", "nomatch"
	case "verify.hash.code.not.match":
		return "fail", "hash"
	}
	return "fail", "other: " + err.Error()
}

// mockCode is the harness's guess of the code in mock mode (an input choice, judged by the spec).
func mockCode(phone string, n int) string {
	if len(phone) >= n {
		return phone[len(phone)-n:]
	}
	return strings.Repeat("0", n-len(phone)) + phone
}

func (in *inst) send(p pair) {
	in.sms.got = in.sms.got[:0]
	var hash string
	var err error
	var pan string
	func() {
		defer func() {
			if x := recover(); x != nil {
				pan = fmt.Sprintf("panic: %v", x)
			}
		}()
		hash, err = in.logic.SendSMSCode(p.area, p.phone)
	}()
	r, class := "ok", "none"
	if pan != "" {
		r, class = "panic", pan
	} else if err != nil {
		r, class = "refused", sendClass(err)
	}
	sms := make([]tr.E, 0, len(in.sms.got))
	for _, m := range in.sms.got {
		sms = append(sms, tr.E{"area": tr.Str(m.area), "phone": tr.Str(m.phone), "code": tr.Str(m.code)})
	}
	in.w.Emit(tr.E{"ev": "call", "a": tr.E{"op": "send", "p": pj(p), "r": r, "err": class,
		"hash": tr.Str(hash), "sms": sms}})
	if r != "ok" {
		return
	}
	// remember what to present later (inputs of later verifications)
	st := in.ps[p]
	if st == nil {
		st = &pstate{}
		in.ps[p] = st
		in.order = append(in.order, p)
	}
	code := ""
	if in.g.Mock {
		code = mockCode(p.phone, in.g.Len)
	} else if len(in.sms.got) > 0 {
		code = in.sms.got[len(in.sms.got)-1].code
	}
	if st.has {
		st.old, st.had = st.cur, true
	}
	st.cur, st.has = sent{code, hash}, true
}

func (in *inst) verify(p pair, code, hash, cref, href string) {
	var err error
	var pan string
	func() {
		defer func() {
			if x := recover(); x != nil {
				pan = fmt.Sprintf("panic: %v", x)
			}
		}()
		err = in.logic.VerifySMSCode(p.area, p.phone, code, hash)
	}()
	r, class := "ok", "none"
	if pan != "" {
		r, class = "panic", pan
	} else if err != nil {
		r, class = verifyClass(err)
	}
	in.w.Emit(tr.E{"ev": "call", "a": tr.E{"op": "verify", "p": pj(p), "code": tr.Str(code),
		"hash": tr.Str(hash), "r": r, "err": class, "cref": cref, "href": href}})
}

// other pair with a code in force (first in order of first send)
func (in *inst) other(p pair) (pair, bool) {
	for _, q := range in.order {
		if q != p {
			return q, true
		}
	}
	return p, false
}

func (in *inst) badCode(p pair) string {
	st := in.ps[p]
	base := strings.Repeat("0", in.g.Len)
	if st != nil && st.has && st.cur.code != "" {
		base = st.cur.code
	}
	switch in.rng.Intn(6) {
	case 0:
		return "!"
	case 1:
		return ""
	case 2:
		return base + "0" // one too long
	case 3:
		if len(base) > 0 {
			return base[:len(base)-1] // one too short
		}
		return "1"
	default: // one digit changed
		if len(base) == 0 {
			return "1"
		}
		b := []byte(base)
		i := in.rng.Intn(len(b))
		if b[i] >= '0' && b[i] <= '9' {
			b[i] = '0' + (b[i]-'0'+1+byte(in.rng.Intn(9)))%10
		} else {
			b[i] = '0'
		}
		return string(b)
	}
}

func (in *inst) badHash(p pair) string {
	st := in.ps[p]
	base := "00000000000000000000000000000000"
	if st != nil && st.has && st.cur.hash != "" {
		base = st.cur.hash
	}
	switch in.rng.Intn(6) {
	case 0:
		return ""
	case 1:
		return "0"
	case 2:
		up := strings.ToUpper(base)
		if up != base {
			return up
		}
		return base + "0"
	case 3:
		return base[:len(base)-1]
	case 4:
		return base + "0"
	default:
		b := []byte(base)
		i := in.rng.Intn(len(b))
		if b[i] == 'f' {
			b[i] = '0'
		} else if b[i] == '9' {
			b[i] = 'a'
		} else {
			b[i]++
		}
		return string(b)
	}
}

// refCode / refHash resolve the plan's references to values of the real run.
func (in *inst) refCode(p pair, ref string) string {
	st := in.ps[p]
	switch ref {
	case "cur":
		if st != nil && st.has {
			return st.cur.code
		}
	case "old":
		if st != nil && st.had {
			return st.old.code
		}
	case "oth":
		if q, ok := in.other(p); ok {
			return in.ps[q].cur.code
		}
	}
	return in.badCode(p)
}

func (in *inst) refHash(p pair, ref string) string {
	st := in.ps[p]
	switch ref {
	case "cur":
		if st != nil && st.has {
			return st.cur.hash
		}
	case "old":
		if st != nil && st.had {
			return st.old.hash
		}
	case "oth":
		if q, ok := in.other(p); ok {
			return in.ps[q].cur.hash
		}
	}
	return in.badHash(p)
}

// ---------------------------------------------------------------- plans from TLC
type planStep struct {
	Op string `json:"op"`
	regime
	P struct {
		Area  []int `json:"area"`
		Phone []int `json:"phone"`
	} `json:"p"`
	Cref string `json:"cref"`
	Href string `json:"href"`
}

func str(codes []int) string {
	b := make([]byte, len(codes))
	for i, c := range codes {
		b[i] = byte(c)
	}
	return string(b)
}

func readPlan(path string) []planStep {
	f, err := os.Open(path)
	if err != nil {
		tr.Fatal("%v", err)
	}
	defer f.Close()
	var out []planStep
	sc := bufio.NewScanner(f)
	sc.Buffer(make([]byte, 1<<20), 1<<20)
	for sc.Scan() {
		var s planStep
		if err := json.Unmarshal(sc.Bytes(), &s); err != nil {
			tr.Fatal("plan %s: %v", path, err)
		}
		out = append(out, s)
	}
	return out
}

func runPlan(w *tr.W, rng *rand.Rand, name string, steps []planStep) {
	if len(steps) == 0 || steps[0].Op != "init" {
		tr.Fatal("plan %s does not start with init", name)
	}
	in := newInst(w, rng, steps[0].regime, "plan:"+name)
	for _, s := range steps[1:] {
		p := pair{str(s.P.Area), str(s.P.Phone)}
		switch s.Op {
		case "send":
			in.send(p)
		case "verify":
			in.verify(p, in.refCode(p, s.Cref), in.refHash(p, s.Href), s.Cref, s.Href)
		case "end":
		default:
			tr.Fatal("plan %s: unknown op %q", name, s.Op)
		}
	}
}

// ---------------------------------------------------------------- seeded histories
func randRegime(rng *rand.Rand) regime {
	lens := []int{1, 2, 3, 4, 4, 6, 6, 8, 12}
	g := regime{Mock: rng.Intn(2) == 0, Len: lens[rng.Intn(len(lens))], TTL: rng.Intn(4) != 0,
		Gap: rng.Intn(3) != 0, Win: rng.Intn(2) == 0, MaxCount: rng.Intn(5), MaxVerify: rng.Intn(6)}
	return g
}

func randPairs(rng *rand.Rand) []pair {
	// always the two pairs that concatenate alike, plus a random selection
	ps := []pair{{"1", "23"}, {"12", "3"}}
	n := rng.Intn(5)
	for i := 0; i < n; i++ {
		p := pair{areasA[rng.Intn(len(areasA))], phonesA[rng.Intn(len(phonesA))]}
		dup := false
		for _, q := range ps {
			dup = dup || q == p
		}
		if !dup {
			ps = append(ps, p)
		}
	}
	rng.Shuffle(len(ps), func(i, j int) { ps[i], ps[j] = ps[j], ps[i] })
	return ps
}

var refs = []string{"cur", "cur", "cur", "cur", "old", "oth", "bad"}

func runRandom(w *tr.W, rng *rand.Rand, nops int) {
	g := randRegime(rng)
	in := newInst(w, rng, g, "rand")
	ps := randPairs(rng)
	// a focus pair gets most of the traffic so that limits are reached
	for i := 0; i < nops; i++ {
		p := ps[0]
		if rng.Intn(3) == 0 {
			p = ps[rng.Intn(len(ps))]
		}
		if rng.Intn(100) < 35 {
			in.send(p)
			continue
		}
		cref, href := refs[rng.Intn(len(refs))], refs[rng.Intn(len(refs))]
		if rng.Intn(2) == 0 {
			cref, href = "cur", "cur"
		}
		in.verify(p, in.refCode(p, cref), in.refHash(p, href), cref, href)
	}
}

// guessing: one code sent, the harness enumerates guesses; the right one comes late.
func runGuess(w *tr.W, rng *rand.Rand) {
	g := regime{Mock: rng.Intn(2) == 0, Len: 1 + rng.Intn(2), TTL: true, Gap: true, Win: false,
		MaxCount: 1, MaxVerify: rng.Intn(8)}
	in := newInst(w, rng, g, "guess")
	p := pair{"86", phonesA[rng.Intn(len(phonesA))]}
	in.send(p)
	n := g.MaxVerify + 3
	for i := 0; i < n; i++ {
		cref := "bad"
		if i >= n-3 || rng.Intn(6) == 0 {
			cref = "cur"
		}
		in.verify(p, in.refCode(p, cref), in.refHash(p, "cur"), cref, "cur")
		if rng.Intn(8) == 0 {
			in.send(p) // a new send resets the attempts
		}
	}
}

// ---------------------------------------------------------------- alphabet samples
// codes handed to the SMS gateway: at least `chars` characters in total
func runCodeSample(w *tr.W, rng *rand.Rand, codeLen, chars int) {
	g := regime{Mock: false, Len: codeLen, TTL: true, Gap: true, Win: false, MaxCount: 0, MaxVerify: 2}
	in := newInst(w, rng, g, "sample")
	ps := []pair{{"86", "13800138000"}, {"1", "5550100"}, {"49", "15112345678"}}
	total := 0
	for i := 0; total < chars; i++ {
		p := ps[i%len(ps)]
		in.send(p)
		if len(in.sms.got) != 1 {
			break // the spec has already been given a line it rejects
		}
		total += len(in.sms.got[0].code)
		if i > 100*chars {
			tr.Fatal("code sample does not grow")
		}
	}
	w.Emit(tr.E{"ev": "cover", "what": "codes", "alpha": tr.Str(digits), "chars": total})
}

// direct samples of idgen/random's generators over several alphabets
func runNonceSample(w *tr.W, rng *rand.Rand, fn, alpha string, n int) {
	w.Emit(tr.E{"ev": "reset", "mock": false, "len": 0, "ttl": true, "gap": true, "win": false,
		"maxCount": 0, "maxVerify": 0, "src": "nonce:" + fn, "durations": tr.E{"none": true}})
	need := 300*len(alpha) + 1
	total := 0
	for total < need {
		k := n
		if rng.Intn(10) == 0 {
			k = rng.Intn(3) // also tiny outputs, including the empty one
		}
		var out, pan string
		func() {
			defer func() {
				if x := recover(); x != nil {
					pan = fmt.Sprintf("panic: %v", x)
				}
			}()
			if fn == "sec" {
				out = random.SecGenNonceStr(alpha, k)
			} else {
				out = random.GenNonceStr(alpha, k)
			}
		}()
		w.Emit(tr.E{"ev": "nonce", "fn": fn, "alpha": tr.Str(alpha), "n": k, "out": tr.Str(out),
			"panic": pan != "", "msg": pan})
		if pan != "" {
			return // rejected by the spec at this line
		}
		total += k
	}
	w.Emit(tr.E{"ev": "cover", "what": "nonce", "alpha": tr.Str(alpha), "chars": total})
}

func main() {
	plans := flag.String("plans", "", "directory of TLC-generated plans")
	out := flag.String("out", "calls.ndjson", "send/verify traces")
	sample := flag.String("sample", "sample.ndjson", "alphabet sample traces")
	seed := flag.Int64("seed", 1, "seed")
	nrand := flag.Int("rand", 300, "random histories")
	nguess := flag.Int("guess", 100, "guessing histories")
	maxops := flag.Int("maxops", 60, "max ops per random history")
	nsample := flag.Int("nsample", 1, "code samples per code length")
	chars := flag.Int("chars", 12000, "characters per code sample")
	flag.Parse()
	rng := rand.New(rand.NewSource(*seed))

	w := tr.Create(*out)
	w.NoSync = true
	if *plans != "" {
		files, _ := filepath.Glob(filepath.Join(*plans, "*.ndjson"))
		sort.Strings(files)
		for _, f := range files {
			runPlan(w, rng, filepath.Base(f), readPlan(f))
		}
	}
	for i := 0; i < *nrand; i++ {
		runRandom(w, rng, 10+rng.Intn(*maxops))
	}
	for i := 0; i < *nguess; i++ {
		runGuess(w, rng)
	}
	w.Close()

	sw := tr.Create(*sample)
	sw.NoSync = true
	for i := 0; i < *nsample; i++ {
		for _, l := range []int{6, 4, 40} {
			runCodeSample(sw, rng, l, *chars)
		}
	}
	for _, fn := range []string{"sec", "plain"} {
		for _, alpha := range []string{digits, "ab", "x", "ACGT", "0123456789abcdef",
			"abcdefghijklmnopqrstuvwxyzABCDEFGHIJKLMNOPQRSTUVWXYZ0123456789"} {
			runNonceSample(sw, rng, fn, alpha, 96+rng.Intn(64))
		}
	}
	sw.Close()
	fmt.Printf("call_events=%d sample_events=%d\n", w.N(), sw.N())
}
