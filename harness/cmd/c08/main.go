// c08: executes bitmap plans (from specs/bitmap/Bitmap_Gen.tla) and seeded histories against
// bitmap1024.Bit1024 and bitmap1024.Bit64, recording one ndjson event per call for validation by
// TLC (specs/bitmap/Bitmap_Trace.tla).
//
// What is observed: replies, the caller's slice after an iterator call (flattened into 16-bit
// limbs of the two's-complement pattern, least significant first) and - as the projection of the
// real state - the members read directly off the raw words (bit j of word k <=> member 64k+j) of
// every handle whose words changed during the call.  Every iterator call is repeated under
// several sparse thresholds (bitmap1024.VerifSetSparseMagic); the threshold is logged but the
// specification never reads it.
package main

import (
	"bufio"
	"encoding/json"
	"flag"
	"fmt"
	"math"
	"math/bits"
	"math/rand"
	"os"
	"path/filepath"
	"runtime"
	"sort"
	"sync"
	"sync/atomic"
	"time"

	bmp "github.com/pinealctx/neptune/bitmap1024"

	"verif/harness/internal/tr"
)

type act struct {
	Op   string `json:"op"`
	H    int    `json:"h"`
	G    int    `json:"g"`
	D    int    `json:"d"`
	I    int    `json:"i"`
	Ms   []int  `json:"ms"`
	W    string `json:"w"`
	Dir  string `json:"dir"`
	N    int    `json:"n"`
	Pos  int    `json:"pos"`
	Add  []int  `json:"add"`
	Univ int    `json:"univ"`
	Nh   int    `json:"nh"`
	Lo   int    `json:"lo"`
	Cnt  int    `json:"cnt"`
	Step int    `json:"step"`
}

var nlimbs = map[string]int{"i8": 1, "i16": 1, "i32": 2, "u32": 2, "i64": 4}
var wbits = map[string]uint{"i8": 8, "i16": 16, "i32": 32, "u32": 32, "i64": 64}

// ---------------------------------------------------------------- value <-> limbs
func toLimbs(v uint64, w string) []int {
	switch w {
	case "i8":
		return []int{int(v & 0xff)}
	case "i16":
		return []int{int(v & 0xffff)}
	case "i32", "u32":
		return []int{int(v & 0xffff), int((v >> 16) & 0xffff)}
	}
	return []int{int(v & 0xffff), int((v >> 16) & 0xffff), int((v >> 32) & 0xffff), int((v >> 48) & 0xffff)}
}

func fromLimbs(l []int, w string) uint64 {
	if len(l) != nlimbs[w] {
		tr.Fatal("value %v has not %d limbs (width %s)", l, nlimbs[w], w)
	}
	var v uint64
	for i := len(l) - 1; i >= 0; i-- {
		if w == "i8" {
			v = uint64(l[i]) & 0xff
		} else {
			v = v<<16 | uint64(l[i])&0xffff
		}
	}
	return v
}

type intT interface {
	~int8 | ~int16 | ~int32 | ~uint32 | ~int64
}

// iterOn runs one iterator call on a slice of L elements pre-filled with sent and returns the
// count and a renderer of the caller's slice.  The slice is kept as it is (no copy): a history that
// renders late shows what the slice holds when the history is over.
func iterOn[T intT](call func(s []T, pos int, add T, n int) int, w string, L, pos int, add, sent uint64, n int, ch *chainState) (int, func() []int) {
	var s []T
	if ch != nil { // an accumulating caller: the slice of the previous call of the chain, as it is
		if c, ok := ch.buf.([]T); ok && len(c) == L {
			s = c
		}
	}
	if s == nil && !(L == 0 && sent%2 == 0) { // a zero-length slice is nil every other time
		s = make([]T, L)
		for i := range s {
			s[i] = T(sent)
		}
	}
	if ch != nil {
		ch.buf = s
		ch.pre = flat(s, w)
	}
	c := call(s, pos, T(add), n)
	return c, func() []int { return flat(s, w) }
}

// chainState carries one caller slice through consecutive iterator calls (each call appends at the
// cursor the previous ones left, like the list forms of the package do).
type chainState struct {
	buf interface{}
	pre []int
}

// keep retains a slice the library returned - the very slice, not a copy - for rendering.  THE CALLER
// OWNS WHAT IT WAS GIVEN: once rendered (every renderer runs exactly once) the slice is written all
// over - every element flipped, then its whole capacity overwritten through s[:0], as a caller that
// recycles it as scratch does.  Later calls must not notice; the trace specification judges them.
func keep[T intT](s []T, w string) func() []int {
	return func() []int {
		out := flat(s, w)
		for i := range s {
			s[i] = ^s[i]
		}
		for s = s[:0]; len(s) < cap(s); {
			s = append(s, 0x5a)
		}
		return out
	}
}

func flat[T intT](s []T, w string) []int {
	out := make([]int, 0, len(s)*nlimbs[w])
	for _, x := range s {
		out = append(out, toLimbs(uint64(x), w)...)
	}
	return out
}

// ---------------------------------------------------------------- the two layers
type world struct {
	chain *chainState // non-nil while an accumulating chain of iterator calls runs
	univ  int
	big   []bmp.Bit1024 // univ = 1024
	wd    []bmp.Bit64   // univ = 64
}

func newWorld(univ, nh int) *world {
	w := &world{univ: univ}
	if univ == 1024 {
		for i := 0; i < nh; i++ {
			w.big = append(w.big, bmp.NewBit1024())
		}
	} else {
		w.wd = make([]bmp.Bit64, nh)
	}
	return w
}

func (w *world) nh() int {
	if w.univ == 1024 {
		return len(w.big)
	}
	return len(w.wd)
}

// raw words of handle h (1-based)
func (w *world) raw(h int) []uint64 {
	if w.univ == 1024 {
		b := w.big[h-1]
		r := make([]uint64, len(b))
		for i := range b {
			r[i] = uint64(b[i])
		}
		return r
	}
	return []uint64{uint64(w.wd[h-1])}
}

func membersOf(raw []uint64, univ int) []int {
	if len(raw)*64 != univ {
		return []int{-1} // a bitmap of the wrong shape: nothing the specification can explain
	}
	ms := make([]int, 0, 64)
	for k, x := range raw {
		for x != 0 {
			j := bits.TrailingZeros64(x)
			ms = append(ms, 64*k+j)
			x &^= 1 << uint(j)
		}
	}
	return ms
}

func (w *world) popcount(h int) int {
	c := 0
	for _, x := range w.raw(h) {
		c += bits.OnesCount64(x)
	}
	return c
}

func (w *world) snapshot() [][]uint64 {
	s := make([][]uint64, w.nh())
	for h := 1; h <= w.nh(); h++ {
		s[h-1] = w.raw(h)
	}
	return s
}

func same(a, b []uint64) bool {
	if len(a) != len(b) {
		return false
	}
	for i := range a {
		if a[i] != b[i] {
			return false
		}
	}
	return true
}

func (w *world) delta(before [][]uint64) []tr.E {
	obs := make([]tr.E, 0, 1)
	for h := 1; h <= w.nh(); h++ {
		now := w.raw(h)
		if !same(now, before[h-1]) {
			obs = append(obs, tr.E{"h": h, "ms": membersOf(now, w.univ)})
		}
	}
	return obs
}

func (w *world) fill(h int, ms []int) {
	if w.univ == 1024 {
		b := bmp.NewBit1024()
		for _, m := range ms {
			b[m/64] |= 1 << uint(m%64)
		}
		w.big[h-1] = b
		return
	}
	var x bmp.Bit64
	for _, m := range ms {
		x |= 1 << uint(m)
	}
	w.wd[h-1] = x
}

// iterCall dispatches to the iterator of the requested width and direction.
func (w *world) iterCall(a *act, L int, add, sent uint64) (int, func() []int) {
	rev := a.Dir == "r"
	if w.univ == 1024 {
		b := w.big[a.H-1]
		switch a.W {
		case "i16":
			f := b.IterAsI16
			if rev {
				f = b.RIterAsI16
			}
			return iterOn(f, a.W, L, a.Pos, add, sent, a.N, w.chain)
		case "i32":
			f := b.IterAsI32
			if rev {
				f = b.RIterAsI32
			}
			return iterOn(f, a.W, L, a.Pos, add, sent, a.N, w.chain)
		case "u32":
			f := b.IterAsU32
			if rev {
				f = b.RIterAsU32
			}
			return iterOn(f, a.W, L, a.Pos, add, sent, a.N, w.chain)
		case "i64":
			f := b.IterAsI64
			if rev {
				f = b.RIterAsI64
			}
			return iterOn(f, a.W, L, a.Pos, add, sent, a.N, w.chain)
		}
		tr.Fatal("Bit1024 has no iterator of width %q", a.W)
	}
	b := w.wd[a.H-1]
	switch a.W {
	case "i8":
		f := b.IterAsI8
		if rev {
			f = b.RIterAsI8
		}
		return iterOn(f, a.W, L, a.Pos, add, sent, a.N, w.chain)
	case "i16":
		f := b.IterAsI16
		if rev {
			f = b.RIterAsI16
		}
		return iterOn(f, a.W, L, a.Pos, add, sent, a.N, w.chain)
	case "i32":
		f := b.IterAsI32
		if rev {
			f = b.RIterAsI32
		}
		return iterOn(f, a.W, L, a.Pos, add, sent, a.N, w.chain)
	case "u32":
		f := b.IterAsU32
		if rev {
			f = b.RIterAsU32
		}
		return iterOn(f, a.W, L, a.Pos, add, sent, a.N, w.chain)
	case "i64":
		f := b.IterAsI64
		if rev {
			f = b.RIterAsI64
		}
		return iterOn(f, a.W, L, a.Pos, add, sent, a.N, w.chain)
	}
	tr.Fatal("Bit64 has no iterator of width %q", a.W)
	return 0, nil
}

// getN dispatches to the list forms (no uint32 form exists; Bit1024 has no int8 form).
func (w *world) getN(a *act) func() []int {
	rev := a.Dir == "r"
	if w.univ == 1024 {
		b := w.big[a.H-1]
		switch a.W {
		case "i16":
			if rev {
				return keep(b.RGetNAsI16(a.N), a.W)
			}
			return keep(b.GetNAsI16(a.N), a.W)
		case "i32":
			if rev {
				return keep(b.RGetNAsI32(a.N), a.W)
			}
			return keep(b.GetNAsI32(a.N), a.W)
		case "i64":
			if rev {
				return keep(b.RGetNAsI64(a.N), a.W)
			}
			return keep(b.GetNAsI64(a.N), a.W)
		}
		tr.Fatal("Bit1024 has no list form of width %q", a.W)
	}
	b := w.wd[a.H-1]
	switch a.W {
	case "i8":
		if rev {
			return keep(b.RGetNAsI8(a.N), a.W)
		}
		return keep(b.GetNAsI8(a.N), a.W)
	case "i16":
		if rev {
			return keep(b.RGetNAsI16(a.N), a.W)
		}
		return keep(b.GetNAsI16(a.N), a.W)
	case "i32":
		if rev {
			return keep(b.RGetNAsI32(a.N), a.W)
		}
		return keep(b.GetNAsI32(a.N), a.W)
	case "i64":
		if rev {
			return keep(b.RGetNAsI64(a.N), a.W)
		}
		return keep(b.GetNAsI64(a.N), a.W)
	}
	tr.Fatal("Bit64 has no list form of width %q", a.W)
	return nil
}

func (w *world) getnWidth(want string) string {
	if want == "u32" {
		return "i32"
	}
	if want == "i8" && w.univ == 1024 {
		return "i16"
	}
	return want
}

func (w *world) iterWidth(want string) string {
	if want == "i8" && w.univ == 1024 {
		return "i16"
	}
	return want
}

// ---------------------------------------------------------------- execution of one action
type runner struct {
	w    *tr.W
	rng  *rand.Rand
	wld  *world
	thrs []int32 // thresholds every read is repeated under
	dead bool    // a panic was logged: the rest of the trace is meaningless
	step int
	// late rendering: in about half of the traces every aggregate a call returned (list forms) or
	// filled (the caller's slice) is kept AS RETURNED and rendered when the trace is over, so that a
	// result that aliases scratch storage of the library, or a later call writing into an earlier
	// caller's slice, shows.  The other traces render at once (crash evidence needs flush per event).
	late    bool
	pending []pend
}

type pend struct {
	ev     tr.E
	render lazy
}

// lazy is a reply that can be rendered later from retained storage.
type lazy func() interface{}

const hangLimit = 40 * time.Second

func (r *runner) flush() {
	for _, p := range r.pending {
		if p.render != nil {
			p.ev["r"] = p.render()
		}
		r.w.Emit(p.ev)
	}
	r.pending = r.pending[:0]
}

func (r *runner) put(ev tr.E, render lazy) {
	if r.late {
		r.pending = append(r.pending, pend{ev, render})
		return
	}
	if render != nil {
		ev["r"] = render()
	}
	r.w.Emit(ev)
}

func (r *runner) reset(univ, nh int, src string) {
	r.flush()
	r.wld = newWorld(univ, nh)
	r.dead = false
	r.step = 0
	r.late = r.rng.Intn(2) == 0
	bmp.VerifSetSparseMagic(9)
	r.w.Emit(tr.E{"ev": "reset", "univ": univ, "nh": nh, "src": src, "late": r.late})
}

// guarded runs one call into the library on its own goroutine: a panic is recovered into a message,
// a call that does not come back within hangLimit is reported as hung (ok = false).
func guarded(f func() interface{}) (reply interface{}, pmsg string, ok bool) {
	done := make(chan struct{})
	go func() {
		defer close(done)
		defer func() {
			if p := recover(); p != nil {
				pmsg = fmt.Sprintf("panic: %v", p)
			}
		}()
		reply = f()
	}()
	select {
	case <-done:
		return reply, pmsg, true
	case <-time.After(hangLimit):
		return nil, "", false
	}
}

// hung: the code under test spins inside one call.  That is behaviour of the code, not a problem of
// the harness: it is logged as an event no action explains, the trace is closed and the process ends
// normally (the goroutine cannot be stopped).
func (r *runner) hung(rec tr.E) {
	r.flush()
	r.w.Emit(tr.E{"ev": "hang", "a": rec, "msg": fmt.Sprintf("call did not return within %v", hangLimit)})
	r.w.Close()
	fmt.Printf("events=%d (ended by a hanging call)\n", r.w.N())
	os.Exit(0)
}

// emit runs f (one call into the library) and logs call/panic/hang.
func (r *runner) emit(rec tr.E, f func() interface{}) {
	if r.dead {
		return
	}
	before := r.wld.snapshot()
	reply, pmsg, ok := guarded(f)
	if !ok {
		r.hung(rec)
	}
	if pmsg != "" {
		r.flush()
		r.w.Emit(tr.E{"ev": "panic", "a": rec, "msg": pmsg})
		r.dead = true
		return
	}
	ev := tr.E{"ev": "call", "a": rec, "obs": r.wld.delta(before)}
	if lz, isLazy := reply.(lazy); isLazy {
		r.put(ev, lz)
		return
	}
	ev["r"] = reply
	r.put(ev, nil)
}

func fitsI16(i int) bool { return i >= math.MinInt16 && i <= math.MaxInt16 }

func (r *runner) do(a *act) {
	w := r.wld
	r.step++
	nh := w.nh()
	chk := func(h int) {
		if h < 1 || h > nh {
			tr.Fatal("handle %d out of 1..%d", h, nh)
		}
	}
	switch a.Op {
	case "set", "unset":
		chk(a.H)
		on := a.Op == "set"
		if w.univ == 64 {
			if a.I < 0 || a.I > 255 {
				tr.Fatal("Bit64.Set takes a byte, got %d", a.I)
			}
			r.emit(tr.E{"op": a.Op, "h": a.H, "i": a.I, "via": "byte"}, func() interface{} {
				if on {
					w.wd[a.H-1].Set(byte(a.I))
				} else {
					w.wd[a.H-1].Unset(byte(a.I))
				}
				return 0
			})
			return
		}
		via := "i32"
		if fitsI16(a.I) && (r.step+a.I)%2 == 0 {
			via = "i16"
		}
		r.emit(tr.E{"op": a.Op, "h": a.H, "i": a.I, "via": via}, func() interface{} {
			b := w.big[a.H-1]
			switch {
			case on && via == "i16":
				b.SetI16(int16(a.I))
			case on:
				b.SetI32(int32(a.I))
			case via == "i16":
				b.UnsetI16(int16(a.I))
			default:
				b.UnsetI32(int32(a.I))
			}
			return 0
		})
	case "setrun", "unsetrun":
		// cnt calls of Set / Unset with lo, lo+step, ... as ONE run-length-encoded event
		chk(a.H)
		on := a.Op == "setrun"
		if a.Step < 1 || a.Cnt < 0 {
			tr.Fatal("bad run %+v", *a)
		}
		last := a.Lo + (a.Cnt-1)*a.Step
		via := "i32"
		switch {
		case w.univ == 64:
			via = "byte"
			if a.Cnt > 0 && (a.Lo < 0 || last > 255) {
				tr.Fatal("Bit64.Set takes a byte, run %+v", *a)
			}
		case fitsI16(a.Lo) && fitsI16(last) && r.step%2 == 0:
			via = "i16"
		}
		r.emit(tr.E{"op": a.Op, "h": a.H, "lo": a.Lo, "cnt": a.Cnt, "step": a.Step, "via": via}, func() interface{} {
			for k, i := 0, a.Lo; k < a.Cnt; k, i = k+1, i+a.Step {
				switch {
				case via == "byte" && on:
					w.wd[a.H-1].Set(byte(i))
				case via == "byte":
					w.wd[a.H-1].Unset(byte(i))
				case via == "i16" && on:
					w.big[a.H-1].SetI16(int16(i))
				case via == "i16":
					w.big[a.H-1].UnsetI16(int16(i))
				case on:
					w.big[a.H-1].SetI32(int32(i))
				default:
					w.big[a.H-1].UnsetI32(int32(i))
				}
			}
			return 0
		})
	case "fill":
		chk(a.H)
		ms := a.Ms
		if ms == nil {
			ms = []int{}
		}
		for _, m := range ms {
			if m < 0 || m >= w.univ {
				tr.Fatal("fill member %d outside the universe", m)
			}
		}
		r.emit(tr.E{"op": "fill", "h": a.H, "ms": ms}, func() interface{} { w.fill(a.H, ms); return 0 })
	case "len", "nlen":
		chk(a.H)
		r.emit(tr.E{"op": a.Op, "h": a.H}, func() interface{} {
			if w.univ == 1024 {
				if a.Op == "len" {
					return w.big[a.H-1].Len()
				}
				return w.big[a.H-1].NLen()
			}
			if a.Op == "len" {
				return w.wd[a.H-1].Len()
			}
			return w.wd[a.H-1].NLen()
		})
	case "rev":
		chk(a.H)
		chk(a.D)
		r.emit(tr.E{"op": "rev", "h": a.H, "d": a.D}, func() interface{} {
			if w.univ == 1024 {
				w.big[a.D-1] = w.big[a.H-1].Reverse()
			} else {
				w.wd[a.D-1] = w.wd[a.H-1].Reverse()
			}
			return 0
		})
	case "and", "or", "orrev":
		chk(a.H)
		chk(a.G)
		chk(a.D)
		r.emit(tr.E{"op": a.Op, "h": a.H, "g": a.G, "d": a.D}, func() interface{} {
			if w.univ == 1024 {
				x, y := w.big[a.H-1], w.big[a.G-1]
				switch a.Op {
				case "and":
					w.big[a.D-1] = x.And(y)
				case "or":
					w.big[a.D-1] = x.Or(y)
				default:
					w.big[a.D-1] = x.OrThenReverse(y)
				}
			} else {
				x, y := w.wd[a.H-1], w.wd[a.G-1]
				switch a.Op {
				case "and":
					w.wd[a.D-1] = x.And(y)
				case "or":
					w.wd[a.D-1] = x.Or(y)
				default:
					// the word layer has no OrThenReverse: it is Or followed by Reverse
					w.wd[a.D-1] = x.Or(y).Reverse()
				}
			}
			return 0
		})
	case "equal":
		chk(a.H)
		chk(a.G)
		r.emit(tr.E{"op": "equal", "h": a.H, "g": a.G}, func() interface{} {
			if w.univ == 1024 {
				return w.big[a.H-1].Equal(w.big[a.G-1])
			}
			return w.wd[a.H-1] == w.wd[a.G-1] // Bit64 is a uint64: equality is the language's
		})
	case "iter":
		chk(a.H)
		wd := w.iterWidth(a.W)
		b := *a
		b.W = wd
		add := fromLimbs(normLimbs(a.Add, a.W, wd), wd)
		if a.Pos < 0 {
			tr.Fatal("negative pos")
		}
		// room for what a correct iterator may write, plus slack; a call that needs more panics
		cnt := a.N
		if l := w.popcount(a.H); cnt > l {
			cnt = l
		}
		if cnt < 0 {
			cnt = 0
		}
		L := a.Pos + cnt + r.rng.Intn(3)
		for _, thr := range r.thresholds(a.H) {
			sent := r.rng.Uint64() & mask(wd)
			rec := tr.E{"op": "iter", "h": a.H, "w": wd, "dir": a.Dir, "n": clampN(a.N), "pos": a.Pos,
				"add": toLimbs(add, wd), "len": L, "sent": toLimbs(sent, wd), "thr": int(thr)}
			noteN(rec, a.N)
			bmp.VerifSetSparseMagic(thr)
			r.emit(rec, func() interface{} {
				c, out := w.iterCall(&b, L, add, sent)
				return lazy(func() interface{} { return tr.E{"c": c, "out": out()} })
			})
		}
		bmp.VerifSetSparseMagic(9)
	case "getn":
		chk(a.H)
		if a.N < 0 {
			tr.Fatal("getn with negative n is outside the property")
		}
		wd := w.getnWidth(a.W)
		b := *a
		b.W = wd
		for _, thr := range r.thresholds(a.H) {
			rec := tr.E{"op": "getn", "h": a.H, "w": wd, "dir": a.Dir, "n": a.N, "thr": int(thr)}
			bmp.VerifSetSparseMagic(thr)
			r.emit(rec, func() interface{} {
				out := w.getN(&b)
				return lazy(func() interface{} { return out() })
			})
		}
		bmp.VerifSetSparseMagic(9)
	default:
		tr.Fatal("unknown op %q", a.Op)
	}
}

// TLC's integers are 32 bit.  The specification uses n only through min(max(n, 0), Len) with
// Len <= 1024, so an n beyond +-2^30 is logged clamped to +-2^30 (same meaning) and the real
// 64-bit argument is kept beside it for the reader of a replay: nreal = sign + four 16-bit limbs
// (least significant first), ncls = "huge" / "-huge".  The call itself gets the real n.
const nCap = 1 << 30

func clampN(n int) int {
	if n > nCap {
		return nCap
	}
	if n < -nCap {
		return -nCap
	}
	return n
}

func noteN(rec tr.E, n int) {
	if clampN(n) == n {
		return
	}
	neg := n < 0
	u := uint64(n)
	if neg {
		u = uint64(-(n + 1)) + 1
	}
	rec["nreal"] = tr.E{"neg": neg, "l": toLimbs(u, "i64")}
	if neg {
		rec["ncls"] = "-huge"
	} else {
		rec["ncls"] = "huge"
	}
}

// the 64-bit boundary budgets: "no limit" idioms and what sits next to an overflow of pos+n
func extremeN(pos int) []int {
	return []int{math.MaxInt, math.MaxInt - 1, math.MaxInt - pos, math.MaxInt - pos + 1, math.MinInt, math.MinInt + 1,
		1 << 40, -(1 << 40), math.MaxInt32 + 1, math.MinInt32 - 1, math.MaxInt/2 + 1, 1 << 32}
}

func mask(w string) uint64 {
	if wbits[w] == 64 {
		return ^uint64(0)
	}
	return 1<<wbits[w] - 1
}

// a plan may carry an add of another width than the one finally used (i8 on Bit1024)
func normLimbs(l []int, from, to string) []int {
	if from == to {
		return l
	}
	return toLimbs(fromLimbs(l, from), to)
}

// thresholds: the fixed ones plus one more - a threshold that splits this bitmap's own word
// popcounts, or an extreme of the configuration value (negative, 1, just around 64, the ends of int32)
func (r *runner) thresholds(h int) []int32 {
	t := append([]int32{}, r.thrs...)
	raw := r.wld.raw(h)
	if len(raw) == 0 || r.rng.Intn(3) == 0 {
		ext := []int32{-1, 1, 8, 10, 63, 65, math.MinInt32, math.MaxInt32, -64, 1 << 16}
		return append(t, ext[r.rng.Intn(len(ext))])
	}
	pc := bits.OnesCount64(raw[r.rng.Intn(len(raw))])
	t = append(t, int32(pc-r.rng.Intn(2)))
	return t
}

// ---------------------------------------------------------------- generators
func readPlan(path string) []act {
	f, err := os.Open(path)
	if err != nil {
		tr.Fatal("%v", err)
	}
	defer f.Close()
	var out []act
	sc := bufio.NewScanner(f)
	sc.Buffer(make([]byte, 1<<20), 1<<24)
	for sc.Scan() {
		var a act
		if err := json.Unmarshal(sc.Bytes(), &a); err != nil {
			tr.Fatal("plan %s: %v", path, err)
		}
		out = append(out, a)
	}
	if err := sc.Err(); err != nil {
		tr.Fatal("plan %s: %v", path, err)
	}
	return out
}

var addPatterns = []uint64{0, 1, 1023, ^uint64(0), ^uint64(0) - 1022, 0x7f, 0x7fff, 0x7fffffff, 0x7fffffffffffffff,
	0x80, 0x8000, 0x80000000, 0x8000000000000000, 0xffff, 0xffffffff, 1 << 32, 0x7fffffff - 500, 0x7fff - 1000, 0x7f - 30}

func (r *runner) randAdd(w string) []int {
	var v uint64
	if r.rng.Intn(4) == 0 {
		v = r.rng.Uint64()
	} else {
		v = addPatterns[r.rng.Intn(len(addPatterns))]
	}
	return toLimbs(v&mask(w), w)
}

func (r *runner) pickN(l int) int {
	switch r.rng.Intn(10) {
	case 9:
		return []int{math.MaxInt32, math.MinInt32, math.MaxInt32 - 1, 1 << 20, math.MaxInt, math.MaxInt - 1, math.MaxInt - 3,
			math.MinInt, 1 << 40, -(1 << 40)}[r.rng.Intn(10)]
	case 0:
		return -1
	case 1:
		return 0
	case 2:
		return 1
	case 3:
		return l - 1
	case 4:
		return l
	case 5:
		return l + 1
	case 6:
		return 2000
	case 7:
		if r.rng.Intn(2) == 0 { // around the word size and its multiples
			return 64*(1+r.rng.Intn(16)) + r.rng.Intn(3) - 1
		}
		return -1 - r.rng.Intn(1<<20)
	}
	if l > 0 {
		return r.rng.Intn(l) + 1
	}
	return 3
}

var widths1024 = []string{"i16", "i32", "u32", "i64"}
var widths64 = []string{"i8", "i16", "i32", "u32", "i64"}

func (r *runner) widths() []string {
	if r.wld.univ == 1024 {
		return widths1024
	}
	return widths64
}

// sweep: every width and direction on handle h, `per` choices of n each
func (r *runner) sweep(h, per int) {
	l := r.wld.popcount(h)
	for _, wd := range r.widths() {
		for _, dir := range []string{"f", "r"} {
			for k := 0; k < per; k++ {
				n := r.pickN(l)
				r.do(&act{Op: "iter", H: h, W: wd, Dir: dir, N: n, Pos: []int{0, 0, 1, 7}[r.rng.Intn(4)], Add: r.randAdd(wd)})
			}
			// 64-bit extremes of n at pos 0, 1, 3, 7: always on Bit1024, every third time on a word
			if r.wld.univ == 1024 || r.rng.Intn(3) == 0 {
				for k := 0; k < per; k++ {
					pos := []int{0, 1, 3, 7}[r.rng.Intn(4)]
					ex := extremeN(pos)
					r.do(&act{Op: "iter", H: h, W: wd, Dir: dir, N: ex[r.rng.Intn(len(ex))], Pos: pos, Add: r.randAdd(wd)})
				}
			}
			if wd != "u32" && r.rng.Intn(2) == 0 {
				n := r.pickN(l)
				if n < 0 || (n > 5000 && n != 1<<20) { // the list forms allocate n elements
					n = l + 2
				}
				r.do(&act{Op: "getn", H: h, W: wd, Dir: dir, N: n})
			}
		}
	}
}

func sortedKeys(m map[int]bool) []int {
	ms := make([]int, 0, len(m))
	for k := range m {
		ms = append(ms, k)
	}
	sort.Ints(ms)
	return ms
}

// structured bitmaps of the 1024 layer
func (r *runner) shapes1024(nrand int) [][]int {
	var out [][]int
	seq := func(lo, hi int) []int {
		s := make([]int, 0, hi-lo+1)
		for i := lo; i <= hi; i++ {
			s = append(s, i)
		}
		return s
	}
	out = append(out, []int{}, seq(0, 1023), []int{0}, []int{63}, []int{64}, []int{1023}, []int{960},
		[]int{0, 63, 64, 127, 128, 959, 960, 1023}, seq(1, 1023), seq(0, 1022), seq(0, 63), seq(960, 1023),
		seq(60, 70), seq(0, 8), seq(0, 9), seq(0, 10), seq(64, 72), seq(64, 73), seq(1014, 1023), seq(1015, 1023))
	// Len = k*64 + {-1, 0, 1}: a prefix, and the same number of members spread at random
	for i := 0; i < 2; i++ {
		c := 64*(1+r.rng.Intn(15)) + r.rng.Intn(3) - 1
		out = append(out, seq(0, c-1))
		ms := append([]int{}, r.rng.Perm(1024)[:c]...)
		sort.Ints(ms)
		out = append(out, ms)
	}
	// word k holds k*4+1 members: popcounts 1..61 straddle every threshold
	{
		m := map[int]bool{}
		for k := 0; k < 16; k++ {
			for _, j := range r.rng.Perm(64)[:k*4+1] {
				m[64*k+j] = true
			}
		}
		out = append(out, sortedKeys(m))
	}
	// popcounts 8, 9, 10 in alternating words, empty words in between
	{
		m := map[int]bool{}
		for k := 0; k < 16; k += 2 {
			for _, j := range r.rng.Perm(64)[:8+(k/2)%3] {
				m[64*k+j] = true
			}
		}
		out = append(out, sortedKeys(m))
	}
	for i := 0; i < nrand; i++ {
		p := []float64{0.003, 0.02, 0.1, 0.14, 0.16, 0.5, 0.9, 0.99}[r.rng.Intn(8)]
		m := map[int]bool{}
		for x := 0; x < 1024; x++ {
			if r.rng.Float64() < p {
				m[x] = true
			}
		}
		out = append(out, sortedKeys(m))
	}
	return out
}

func (r *runner) shapes64(nrand int) [][]int {
	var out [][]int
	full := make([]int, 64)
	for i := range full {
		full[i] = i
	}
	out = append(out, []int{}, full, []int{0}, []int{63}, []int{0, 63}, full[1:], full[:63], full[:9], full[:10], full[55:], full[54:])
	for pc := 1; pc <= 63; pc++ { // one word of every popcount
		ms := append([]int{}, r.rng.Perm(64)[:pc]...)
		sort.Ints(ms)
		out = append(out, ms)
	}
	for i := 0; i < nrand; i++ {
		x := r.rng.Uint64()
		switch r.rng.Intn(3) {
		case 0:
			x &= r.rng.Uint64() & r.rng.Uint64() // sparse, around the default threshold
		case 1:
			x |= r.rng.Uint64()
		}
		out = append(out, membersOf([]uint64{x}, 64))
	}
	return out
}

// chainCalls: one caller slice filled by two or three consecutive iterator calls on (possibly)
// different handles and directions, each starting where the previous one stopped.  The event carries
// the whole slice before the call (`pre`) and after it: what earlier calls wrote must stay.
func (r *runner) chainCalls() {
	if r.dead {
		return
	}
	w := r.wld
	wd := r.widths()[r.rng.Intn(len(r.widths()))]
	k := 2 + r.rng.Intn(2)
	type seg struct {
		h, n, cnt int
		dir       string
	}
	segs := make([]seg, k)
	start := r.rng.Intn(3)
	L := start
	for i := range segs {
		h := r.rng.Intn(w.nh()) + 1
		l := w.popcount(h)
		n := []int{1, 2, 5, l, l + 1, l / 2, 2000, math.MaxInt, 0, -1}[r.rng.Intn(10)]
		cnt := n
		if cnt > l {
			cnt = l
		}
		if cnt < 0 {
			cnt = 0
		}
		segs[i] = seg{h, n, cnt, []string{"f", "r"}[r.rng.Intn(2)]}
		L += cnt
	}
	L += r.rng.Intn(3)
	sent := r.rng.Uint64() & mask(wd)
	w.chain = &chainState{}
	defer func() { w.chain = nil; bmp.VerifSetSparseMagic(9) }()
	cursor := start
	for i, sg := range segs {
		add := fromLimbs(r.randAdd(wd), wd)
		thr := r.thresholds(sg.h)
		t := thr[r.rng.Intn(len(thr))]
		b := act{Op: "iter", H: sg.h, W: wd, Dir: sg.dir, N: sg.n, Pos: cursor}
		rec := tr.E{"op": "iter", "h": sg.h, "w": wd, "dir": sg.dir, "n": clampN(sg.n), "pos": cursor,
			"add": toLimbs(add, wd), "len": L, "sent": toLimbs(sent, wd), "thr": int(t), "chain": i + 1}
		noteN(rec, sg.n)
		bmp.VerifSetSparseMagic(t)
		r.emit(rec, func() interface{} {
			c, out := w.iterCall(&b, L, add, sent)
			rec["pre"] = w.chain.pre
			return tr.E{"c": c, "out": out()} // the slice is reused: rendered at once
		})
		cursor += sg.cnt
	}
}

// raceRound: a bitmap nobody writes is read by G goroutines released together by a spin barrier
// (iterators of every width and direction, list forms, Len, NLen, Equal), while one more goroutine
// keeps changing the sparse threshold.  Values that are only read are safe to share, so every reply
// must be what the same call gives alone; the results are kept as returned and rendered when the
// round is over (scratch storage shared between callers, lazily built tables shared without
// synchronisation show here).  With -cold this is the first use of the package in the process.
func (r *runner) raceRound(univ int, ms []int, src string, G, per int) {
	r.reset(univ, 2, src)
	r.do(&act{Op: "fill", H: 1, Ms: ms})
	ms2 := append([]int{}, ms...)
	if len(ms2) > 0 && r.rng.Intn(2) == 0 {
		ms2 = ms2[:len(ms2)-1]
	}
	r.do(&act{Op: "fill", H: 2, Ms: ms2})
	if r.dead {
		return
	}
	w := r.wld
	before := w.snapshot()
	pops := []int{w.popcount(1), w.popcount(2)}
	type res struct {
		rec    tr.E
		render lazy
		pmsg   string
	}
	out := make([][]res, G)
	var gate, stop int32
	var ready, wg sync.WaitGroup
	widths := r.widths()
	for g := 0; g < G; g++ {
		ready.Add(1)
		wg.Add(1)
		go func(g int, rng *rand.Rand) {
			defer wg.Done()
			var cur tr.E
			defer func() {
				if p := recover(); p != nil {
					out[g] = append(out[g], res{rec: cur, pmsg: fmt.Sprintf("panic: %v", p)})
				}
			}()
			ready.Done()
			for atomic.LoadInt32(&gate) == 0 {
			}
			for k := 0; k < per; k++ {
				h := rng.Intn(2) + 1
				l := pops[h-1]
				dir := []string{"f", "r"}[rng.Intn(2)]
				switch x := rng.Intn(20); {
				case x < 12:
					wd := widths[rng.Intn(len(widths))]
					pos := []int{0, 0, 1, 3, 7}[rng.Intn(5)]
					n := []int{-1, 0, 1, l - 1, l, l + 1, 2000, math.MaxInt, math.MaxInt - pos + 1, l / 2}[rng.Intn(10)]
					cnt := n
					if cnt > l {
						cnt = l
					}
					if cnt < 0 {
						cnt = 0
					}
					L := pos + cnt + rng.Intn(3)
					add := addPatterns[rng.Intn(len(addPatterns))] & mask(wd)
					sent := rng.Uint64() & mask(wd)
					b := act{Op: "iter", H: h, W: wd, Dir: dir, N: n, Pos: pos}
					cur = tr.E{"op": "iter", "h": h, "w": wd, "dir": dir, "n": clampN(n), "pos": pos,
						"add": toLimbs(add, wd), "len": L, "sent": toLimbs(sent, wd), "thr": "flip", "gor": g}
					noteN(cur, n)
					c, o := w.iterCall(&b, L, add, sent)
					out[g] = append(out[g], res{rec: cur, render: func() interface{} { return tr.E{"c": c, "out": o()} }})
				case x < 16:
					wd := w.getnWidth(widths[rng.Intn(len(widths))])
					n := []int{0, 1, l - 1, l, l + 1, 2000}[rng.Intn(6)]
					if n < 0 {
						n = 0
					}
					b := act{Op: "getn", H: h, W: wd, Dir: dir, N: n}
					cur = tr.E{"op": "getn", "h": h, "w": wd, "dir": dir, "n": n, "thr": "flip", "gor": g}
					o := w.getN(&b)
					out[g] = append(out[g], res{rec: cur, render: func() interface{} { return o() }})
				case x < 18:
					op := []string{"len", "nlen"}[rng.Intn(2)]
					cur = tr.E{"op": op, "h": h, "gor": g}
					var v int
					switch {
					case univ == 1024 && op == "len":
						v = w.big[h-1].Len()
					case univ == 1024:
						v = w.big[h-1].NLen()
					case op == "len":
						v = w.wd[h-1].Len()
					default:
						v = w.wd[h-1].NLen()
					}
					out[g] = append(out[g], res{rec: cur, render: func() interface{} { return v }})
				default:
					cur = tr.E{"op": "equal", "h": 1, "g": 2}
					var v bool
					if univ == 1024 {
						v = w.big[0].Equal(w.big[1])
					} else {
						v = w.wd[0] == w.wd[1]
					}
					out[g] = append(out[g], res{rec: cur, render: func() interface{} { return v }})
				}
			}
		}(g, rand.New(rand.NewSource(r.rng.Int63())))
	}
	flipped := make(chan struct{})
	go func() {
		defer close(flipped)
		vals := []int32{0, 9, 64, 3, 30, -1, 9, 65}
		for i := 0; atomic.LoadInt32(&stop) == 0; i++ {
			bmp.VerifSetSparseMagic(vals[i%len(vals)])
			runtime.Gosched()
		}
	}()
	ready.Wait()
	atomic.StoreInt32(&gate, 1)
	done := make(chan struct{})
	go func() { wg.Wait(); close(done) }()
	select {
	case <-done:
	case <-time.After(hangLimit):
		r.hung(tr.E{"op": "race", "src": src})
	}
	atomic.StoreInt32(&stop, 1)
	<-flipped
	bmp.VerifSetSparseMagic(9)
	delta := w.delta(before)
	var evs []pend
	var panicked *res
	for g := range out {
		for i := range out[g] {
			x := &out[g][i]
			if x.pmsg != "" {
				if panicked == nil {
					panicked = x
				}
				continue
			}
			evs = append(evs, pend{tr.E{"ev": "call", "a": x.rec, "obs": []tr.E{}}, x.render})
		}
	}
	if len(evs) > 0 {
		evs[len(evs)-1].ev["obs"] = delta // nobody wrote: the bitmaps must be what they were
	}
	for _, e := range evs {
		r.put(e.ev, e.render)
	}
	if panicked != nil {
		r.flush()
		r.w.Emit(tr.E{"ev": "panic", "a": panicked.rec, "msg": panicked.pmsg})
		r.dead = true
	}
}

// apiShapes: the structural operations (iteration, list forms, Reverse, Equal, Len) in shape classes
// reached through the API itself: never used, filled by a run of Set calls (255/256/257, 1023/1024/
// 1025, 65535/65536/65537 calls: anything narrowed to 8 or 16 bits on the way wraps there), exactly
// full, emptied again by a run of Unset calls, one member left, refilled after having been emptied.
func (r *runner) apiShapes(univ int) {
	r.reset(univ, 3, "apishapes")
	look := func(h int) {
		r.do(&act{Op: "len", H: h})
		wd := r.widths()[r.rng.Intn(len(r.widths()))]
		r.do(&act{Op: "iter", H: h, W: wd, Dir: []string{"f", "r"}[r.rng.Intn(2)], N: r.pickN(r.wld.popcount(h)), Pos: r.rng.Intn(3), Add: r.randAdd(wd)})
		r.do(&act{Op: "getn", H: h, W: "i64", Dir: []string{"f", "r"}[r.rng.Intn(2)], N: r.wld.popcount(h) + 1})
		r.do(&act{Op: "equal", H: h, G: 3}) // handle 3 is never touched
		r.do(&act{Op: "rev", H: h, D: 2})
		r.do(&act{Op: "nlen", H: 2})
	}
	look(1) // never used
	if univ == 64 {
		for _, c := range []int{63, 64, 65, 255, 256} {
			r.do(&act{Op: "setrun", H: 1, Lo: 0, Cnt: c, Step: 1})
			look(1)
			r.do(&act{Op: "unsetrun", H: 1, Lo: 0, Cnt: c - 1 + r.rng.Intn(2), Step: 1})
			look(1) // emptied by removals, or one member left
		}
		r.do(&act{Op: "setrun", H: 1, Lo: 1, Cnt: 100, Step: 2})
		look(1)
		return
	}
	// every boundary of the index types, each time (none of them is a member)
	for _, i := range []int{math.MinInt32, math.MinInt32 + 1, math.MaxInt32, math.MaxInt32 - 63, -1, -63, -64, -65, 1024, 1087,
		32767, -32768, 32768, -32769, 65535, 65536, -65536, 1 << 24, -(1 << 24)} {
		r.do(&act{Op: "set", H: 1, I: i})
	}
	r.do(&act{Op: "len", H: 1})
	counts := []int{255, 256, 257, 1023, 1024, 1025, 65535, 65536, 65537}
	r.rng.Shuffle(len(counts), func(i, j int) { counts[i], counts[j] = counts[j], counts[i] })
	for _, c := range counts[:4] {
		lo := []int{0, 0, -3, 500 - c}[r.rng.Intn(4)] // SetI16 when the run fits int16, else SetI32
		r.do(&act{Op: "setrun", H: 1, Lo: lo, Cnt: c, Step: 1})
		look(1)
		r.do(&act{Op: "unsetrun", H: 1, Lo: lo, Cnt: c - r.rng.Intn(2), Step: 1})
		look(1) // emptied by removals (or the last member left)
	}
	r.do(&act{Op: "setrun", H: 1, Lo: 1, Cnt: 700, Step: 3}) // refilled after having been emptied
	look(1)
	r.do(&act{Op: "unsetrun", H: 1, Lo: 1, Cnt: 300, Step: 6})
	look(1)
}

// random history of mutations and reads over three handles
func (r *runner) history(univ, nops int) {
	r.reset(univ, 3, "rand")
	idx := func() int {
		if univ == 64 {
			return []int{0, 1, 62, 63, 64, 65, 127, 128, 200, 255, r.rng.Intn(64), r.rng.Intn(64), r.rng.Intn(256)}[r.rng.Intn(13)]
		}
		switch r.rng.Intn(10) {
		case 0:
			return []int{-1, -63, -64, -65, -1023, -1024, -1025, 1024, 1025, 1087, 1088, 2047, 32767, -32768, 32768, -32769,
				65536, 65536 + 5, 1 << 20, math.MaxInt32, math.MinInt32 + 1, math.MinInt32, -(1 << 16) + 3}[r.rng.Intn(23)]
		case 1:
			return []int{0, 63, 64, 127, 959, 960, 1022, 1023}[r.rng.Intn(8)]
		case 2:
			return r.rng.Intn(4096) - 2048
		}
		return r.rng.Intn(1024)
	}
	for i := 0; i < nops && !r.dead; i++ {
		h, g, d := r.rng.Intn(3)+1, r.rng.Intn(3)+1, r.rng.Intn(3)+1
		switch x := r.rng.Intn(100); {
		case x < 30:
			r.do(&act{Op: "set", H: h, I: idx()})
		case x < 42:
			r.do(&act{Op: "unset", H: h, I: idx()})
		case x < 47:
			var ms []int
			if univ == 1024 {
				s := r.shapes1024(1)
				ms = s[r.rng.Intn(len(s))]
			} else {
				s := r.shapes64(1)
				ms = s[r.rng.Intn(len(s))]
			}
			r.do(&act{Op: "fill", H: h, Ms: ms})
		case x < 53:
			r.do(&act{Op: "and", H: h, G: g, D: d})
		case x < 59:
			r.do(&act{Op: "or", H: h, G: g, D: d})
		case x < 64:
			r.do(&act{Op: "orrev", H: h, G: g, D: d})
		case x < 69:
			r.do(&act{Op: "rev", H: h, D: d})
		case x < 74:
			r.do(&act{Op: "equal", H: h, G: g})
		case x < 80:
			r.do(&act{Op: "len", H: h})
		case x < 84:
			r.do(&act{Op: "nlen", H: h})
		case x < 87:
			r.chainCalls()
		case x < 95:
			wd := r.widths()[r.rng.Intn(len(r.widths()))]
			r.do(&act{Op: "iter", H: h, W: wd, Dir: []string{"f", "r"}[r.rng.Intn(2)], N: r.pickN(r.wld.popcount(h)),
				Pos: []int{0, 1, 2, 3, 7, 64, 300, 1}[r.rng.Intn(8)], Add: r.randAdd(wd)})
		default:
			wd := r.widths()[r.rng.Intn(len(r.widths()))]
			n := r.pickN(r.wld.popcount(h))
			if n < 0 || (n > 5000 && n != 1<<20) {
				n = 0
			}
			r.do(&act{Op: "getn", H: h, W: wd, Dir: []string{"f", "r"}[r.rng.Intn(2)], N: n})
		}
	}
}

// smallShape1024: at most ~80 members (dense words, sparse words and empty words mixed), so that the
// many calls of a concurrent round stay small events
func (r *runner) smallShape1024() []int {
	m := map[int]bool{}
	for k := 0; k < 16; k++ {
		var c int
		switch r.rng.Intn(4) {
		case 0:
			c = 0
		case 1:
			c = 1 + r.rng.Intn(3)
		case 2:
			c = 8 + r.rng.Intn(4) // around the default threshold
		default:
			c = r.rng.Intn(7)
		}
		for _, j := range r.rng.Perm(64)[:c] {
			m[64*k+j] = true
		}
	}
	return sortedKeys(m)
}

func main() {
	plans := flag.String("plans", "", "directory of TLC-generated plans")
	out := flag.String("out", "bitmap.ndjson", "traces")
	seed := flag.Int64("seed", 1, "seed")
	nshape := flag.Int("shapes", 12, "random 1024-bit shapes swept (besides the fixed ones)")
	nword := flag.Int("words", 40, "random 64-bit words swept (besides one of every popcount)")
	nhist := flag.Int("hist", 30, "random histories per layer")
	nops := flag.Int("ops", 40, "operations per history")
	per := flag.Int("per", 1, "choices of n per width and direction in a sweep")
	nrace := flag.Int("race", 6, "concurrent read rounds per layer")
	cold := flag.Bool("cold", false, "only one concurrent read round, as the first use of the package in this process")
	flag.Parse()
	rng := rand.New(rand.NewSource(*seed))
	w := tr.Create(*out)
	r := &runner{w: w, rng: rng, thrs: []int32{0, 9, 64}}

	if *cold {
		if *seed%2 == 0 {
			s := r.shapes64(1)
			r.raceRound(64, s[len(s)-1], "cold64", 8, 40)
		} else {
			r.raceRound(1024, r.smallShape1024(), "cold1024", 8, 25)
		}
		r.flush()
		w.Close()
		fmt.Printf("events=%d\n", w.N())
		return
	}

	if *plans != "" {
		files, _ := filepath.Glob(filepath.Join(*plans, "*.ndjson"))
		sort.Strings(files)
		for _, f := range files {
			p := readPlan(f)
			if len(p) == 0 || p[0].Op != "init" {
				tr.Fatal("plan %s does not start with init", f)
			}
			r.reset(p[0].Univ, p[0].Nh, "plan:"+filepath.Base(f))
			for i := range p[1:] {
				r.do(&p[1+i])
			}
		}
	}
	for _, ms := range r.shapes1024(*nshape) {
		r.reset(1024, 1, "sweep1024")
		r.do(&act{Op: "fill", H: 1, Ms: ms})
		r.do(&act{Op: "len", H: 1})
		r.do(&act{Op: "nlen", H: 1})
		r.sweep(1, *per)
	}
	for _, ms := range r.shapes64(*nword) {
		r.reset(64, 1, "sweep64")
		r.do(&act{Op: "fill", H: 1, Ms: ms})
		r.do(&act{Op: "len", H: 1})
		r.sweep(1, *per)
	}
	for i := 0; i < *nhist; i++ {
		r.history(1024, *nops)
		r.history(64, *nops)
	}
	for i := 0; i < 1+*nhist/20; i++ {
		r.apiShapes(1024)
		r.apiShapes(64)
	}
	for i := 0; i < *nrace; i++ {
		r.raceRound(1024, r.smallShape1024(), "race1024", 8, 25)
		s2 := r.shapes64(1)
		r.raceRound(64, s2[r.rng.Intn(len(s2))], "race64", 8, 50)
	}
	r.flush()
	w.Close()
	fmt.Printf("events=%d\n", w.N())
}
