module verif/harness

go 1.19

require github.com/pinealctx/neptune v0.0.0

require (
	github.com/cespare/xxhash/v2 v2.2.0 // indirect
	github.com/dgryski/go-rendezvous v0.0.0-20200823014737-9f7001d12a5f // indirect
	github.com/golang/protobuf v1.5.3 // indirect
	github.com/redis/go-redis/v9 v9.0.4 // indirect
	go.uber.org/atomic v1.11.0 // indirect
	go.uber.org/multierr v1.6.0 // indirect
	go.uber.org/zap v1.24.0 // indirect
	google.golang.org/genproto v0.0.0-20230410155749-daa745c078e1 // indirect
	google.golang.org/grpc v1.55.0 // indirect
	google.golang.org/protobuf v1.30.0 // indirect
	gopkg.in/natefinch/lumberjack.v2 v2.2.1 // indirect
)

replace github.com/pinealctx/neptune => /repo
