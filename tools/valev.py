#!/usr/bin/env python3
"""Validate evidence files against the schema."""
import glob, json, subprocess, sys
code = """
import json, jsonschema, glob, sys
s = json.load(open('/root/.vp/EVIDENCE.schema.json'))
bad = 0
for f in sorted(glob.glob('/verif/evidence/*.json')):
    try:
        jsonschema.validate(json.load(open(f)), s); print('ok', f)
    except Exception as e:
        bad += 1; print('INVALID', f, str(e)[:300])
sys.exit(1 if bad else 0)
"""
sys.exit(subprocess.call(["python3-vt", "-c", code]))
