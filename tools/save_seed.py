#!/usr/bin/env python3
"""save_seed.py <id> <property> <srcdir> <needs> <detected_by> -- copies patch.diff/demo/notes into /verif/seeded/<id>/ with meta.json"""
import json, os, shutil, sys
sid, prop, src, needs, detected = sys.argv[1:6]
dst = os.path.join('/verif/seeded', sid)
os.makedirs(dst, exist_ok=True)
for f in os.listdir(src):
    shutil.copyfile(os.path.join(src, f), os.path.join(dst, f))
meta = {"id": sid, "property": prop, "needs_to_manifest": needs,
        "confirmed": "demo passes on the clean tree and fails with patch.diff applied; go build ./... and the touched package's existing tests pass with the patch (run by the coordinator in a scratch worktree)",
        "detected_by": detected,
        "how_run": "git -C /repo apply seeded/%s/patch.diff; ./check %s; git -C /repo apply -R seeded/%s/patch.diff" % (sid, prop, sid)}
json.dump(meta, open(os.path.join(dst, 'meta.json'), 'w'), indent=1)
print("saved", dst)
