#!/bin/bash
# tools/save_next.sh <prop> <srcdir> <needs> <detected_by> : saves under the next free letter
P=$1; last=$(ls /verif/seeded | grep "^$P-" | sed "s/$P-//" | sort | tail -1); next=$(echo "$last" | tr 'A-Y' 'B-Z'); [ -z "$last" ] && next=A
python3 /verif/tools/save_seed.py $P-$next $P "$2" "$3" "$4" | tail -1
