#!/usr/bin/env python3
"""Prints a markdown table of what the evidence files say (used for DESIGN.md 11.5)."""
import json, glob, os
print("| prop | tier | MC distinct states | MC transitions | plans | traces validated | events validated | wall s |")
print("|------|------|-------------------:|---------------:|------:|-----------------:|-----------------:|-------:|")
for f in sorted(glob.glob('/verif/evidence/C*.json')):
    d = json.load(open(f)); c = d['coverage']
    print("| %s | %s | %s | %s | %s | %s | %s | %s |" % (d['property_id'], d['tier'], format(c.get('states',0),','), format(c.get('transitions',0),','),
          c.get('plans','-'), format(c.get('traces_validated_against_impl',0),','), format(c.get('events_validated_against_impl',0),','), d['wall_s']))
