#!/usr/bin/env python3
"""Generates /verif/MANIFEST.json from the table below (single source of truth) and validates it."""
import json
import os
import subprocess
import sys

ROOT = os.path.dirname(os.path.dirname(os.path.abspath(__file__)))

# property -> (design section, level text, level note, technique)
BUILT = {
    "C02": ("4/C02",
            "KeyLock.tla models the table (lookup-or-create, read/write counts, free at 0/0), Go's RWMutex "
            "protocol (writer announce + drain; alternative policy Any), per-shard registration and "
            "multi-key acquisition in (shard, list) order; TLC checks exclusion, reclaim, count accounting, "
            "key independence and - with deadlock checking on - that consistently ordered duplicate-free "
            "lists never deadlock (3 procs, 3 keys, 2 shards, all 7 ordered lists, both modes: 1.2M states); "
            "rotated lists and a free-ignores-writers deviation are kept as non-vacuity witnesses. Schedules "
            "(TLC plans + random) run step by step on all ten locker variants with global quiescence; the "
            "observed held/parked/idle vectors are judged by the policy-free contract KeyLockObs.tla, where "
            "TLC searches for the keys each parked multi-key caller already holds (compatible, monotone, "
            "every parked caller justified); leftovers or parked callers at the end are rejected. "
            "Free-running stress is judged on monitor events; a runtime fatal error inside neptune is a "
            "crash event no action explains.",
            "Exhaustive only within MC constants; schedules on real code are sampled. The contract does not "
            "fix reader/writer preference. Trusted: TLC, runtime.Stack wait reasons, read-only verif accessors.",
            "TLA+ spec + TLC exhaustive check (incl. deadlock) + step-by-step schedule replay with TLC trace validation"),
    "C01": ("4/C01",
            "Semap.tla (one action per hold of the map mutex: acquire, release with FIFO grant loop, "
            "cancel-wake, cancel-resolve; entries have identities) is model-checked exhaustively (3 procs, "
            "1 key, ratio 1..2; thorough 4 procs / 2 keys / ratio 1..3) for Exclusion, NoResidue, StaleFree, "
            "token accounting, no-lost-grant, FIFO and hold-stability, plus liveness of cancellation under "
            "fairness; the pinned release rule is kept as a deviation constant and shown to violate the "
            "invariants. Plans from the spec and seeded random schedules run step by step on real goroutines "
            "(global quiescence from runtime wait reasons; the cancel-vs-grant race is reached through a gate "
            "hook); after every step the status of every worker and (present,cur,waiters) per key must equal "
            "the spec's successor state. Free-running stress runs are judged on monitor events.",
            "Exhaustive only within MC constants; schedules on real code are sampled. Trusted: TLC, "
            "runtime.Stack wait reasons, the verif accessors (read-only, under the map mutex).",
            "TLA+ spec + TLC exhaustive check + step-by-step schedule replay with TLC trace validation"),
    "C04": ("4/C04",
            "LRU.tla (list/table/size counter/eviction loop as in the code) is model-checked exhaustively for "
            "3 keys x 4 sizes x 3 capacities, both charging modes (size never drifts from the true sum, "
            "bound holds after every action, victims are strictly the least recent). Plans simulated from "
            "the spec and seeded random histories are executed on cache.LRUCache, tiny.LRUCache and the four "
            "wide variants; every reply and the full Keys/Items/Stats projection after every call must be a "
            "step of the spec (TLC trace validation); 3-thread histories are validated by linearization "
            "search in TLC.",
            "Exhaustive only within the MC constants; real code covered as far as plans/histories reach. "
            "Trusted: TLC, the Go trace writer, the public remap index for per-shard routing.",
            "TLA+ spec + TLC exhaustive check + TLC trace validation of recorded executions"),
}

NOT_BUILT_REASON = "check not built yet in this round (TLA+ design in DESIGN.md section 4); not claimed"


def main():
    props = [json.loads(l) for l in open(os.path.join(ROOT, "properties.jsonl"))]
    checks, na = [], []
    for p in props:
        pid = p["id"]
        if pid in BUILT:
            ref, text, note, tech = BUILT[pid]
            checks.append({
                "property_id": pid,
                "quick_cmd": "./check %s --tier quick" % pid,
                "thorough_cmd": "./check %s --tier thorough" % pid,
                "evidence_file": "/verif/evidence/%s.json" % pid,
                "replay_cmd_template": "./check %s --replay {path}" % pid,
                "engine": "tla-gev",
                "level_claimed": {"category": "model_checking", "text": text, "design_ref": ref},
                "level_note": note,
                "technique": tech,
            })
        else:
            na.append({"property_id": pid, "reason": NA.get(pid, NOT_BUILT_REASON)})
    man = {
        "version": 1,
        "setup_cmd": "./setup.sh",
        "hooks": {
            "guard": "verif",
            "enable": "go build -tags verif (harness module /verif/harness with replace github.com/pinealctx/neptune => /repo)",
            "baseline_off_cmd": "cd /repo && GOFLAGS=-mod=mod go test -vet=off -count=1 -timeout 25m ./...",
            "source_commits": HOOK_COMMITS,
            "add_only": True,
        },
        "engines": [{
            "name": "tla-gev",
            "path": "/verif/check",
            "serves_properties": sorted(BUILT),
            "kind_free_text": "TLA+ specifications (specs/), TLC exhaustive model checking, TLC-generated plans "
                              "replayed into the real Go code (harness/), TLC validation of ndjson traces "
                              "recorded from the real code (generate -> execute -> validate)",
        }],
        "checks": checks,
        "not_applicable": na,
        "notes": "Exit codes: 0 held, 1 VIOLATION, 2 machinery problem. See DESIGN.md.",
    }
    out = os.path.join(ROOT, "MANIFEST.json")
    with open(out, "w") as f:
        json.dump(man, f, indent=1)
        f.write("\n")
    code = ("import json,jsonschema,sys;"
            "jsonschema.validate(json.load(open(%r)), json.load(open('/root/.vp/MANIFEST.schema.json')));"
            "print('MANIFEST valid: %%d checks, %%d not_applicable' %% (%d, %d))" % (out, len(checks), len(na)))
    sys.exit(subprocess.call(["python3-vt", "-c", code]))


NA = {}
HOOK_COMMITS = ["d87e89d", "79d964d"]

if __name__ == "__main__":
    main()
