#!/usr/bin/env python3
"""Generates /verif/MANIFEST.json from the table below (single source of truth) and validates it."""
import json
import os
import subprocess
import sys

ROOT = os.path.dirname(os.path.dirname(os.path.abspath(__file__)))

# property -> (design section, level text, level note, technique)
_T = json.load(open(os.path.join(ROOT, "tools", "built.json")))
BUILT = {k: (v["design_ref"], v["text"], v["note"], v["technique"]) for k, v in _T["built"].items()}

NOT_BUILT_REASON = "check not built yet in this round (TLA+ design in DESIGN.md section 4); not claimed"


def main():
    props = [json.loads(l) for l in open(os.path.join(ROOT, "properties.jsonl"))]
    checks, na = [], []
    for p in props:
        pid = p["id"]
        if pid in BUILT:
            ref, text, note, tech = BUILT[pid]
            checks.append({
                "property_id": pid,
                "quick_cmd": "./check %s --tier quick" % pid,
                "thorough_cmd": "./check %s --tier thorough" % pid,
                "evidence_file": "/verif/evidence/%s.json" % pid,
                "replay_cmd_template": "./check %s --replay {path}" % pid,
                "engine": "tla-gev",
                "level_claimed": {"category": "model_checking", "text": text, "design_ref": ref},
                "level_note": note,
                "technique": tech,
            })
        else:
            na.append({"property_id": pid, "reason": NA.get(pid, NOT_BUILT_REASON)})
    man = {
        "version": 1,
        "setup_cmd": "./setup.sh",
        "hooks": {
            "guard": "verif",
            "enable": "go build -tags verif (harness module /verif/harness with replace github.com/pinealctx/neptune => /repo)",
            "baseline_off_cmd": "cd /repo && GOFLAGS=-mod=mod go test -vet=off -count=1 -timeout 25m ./...",
            "source_commits": HOOK_COMMITS,
            "add_only": True,
        },
        "engines": [{
            "name": "tla-gev-extras",
            "path": "/verif/check",
            "serves_properties": [],
            "kind_free_text": "specification growth beyond the given list: ./check X01..X05 (codecs, containers, "
                              "timex/randx, etcd watch, mpb/errorx) - same machinery, properties in extras/x0n.md, "
                              "evidence in extras/evidence/, not claimed as checks",
        }, {
            "name": "tla-gev",
            "path": "/verif/check",
            "serves_properties": sorted(BUILT),
            "kind_free_text": "TLA+ specifications (specs/), TLC exhaustive model checking, TLC-generated plans "
                              "replayed into the real Go code (harness/), TLC validation of ndjson traces "
                              "recorded from the real code (generate -> execute -> validate)",
        }],
        "checks": checks,
        "not_applicable": na,
        "notes": "Exit codes: 0 held, 1 VIOLATION, 2 machinery problem. See DESIGN.md.",
    }
    out = os.path.join(ROOT, "MANIFEST.json")
    with open(out, "w") as f:
        json.dump(man, f, indent=1)
        f.write("\n")
    code = ("import json,jsonschema,sys;"
            "jsonschema.validate(json.load(open(%r)), json.load(open('/root/.vp/MANIFEST.schema.json')));"
            "print('MANIFEST valid: %%d checks, %%d not_applicable' %% (%d, %d))" % (out, len(checks), len(na)))
    sys.exit(subprocess.call(["python3-vt", "-c", code]))


NA = _T.get("not_applicable", {})
HOOK_COMMITS = _T["hook_commits"]

if __name__ == "__main__":
    main()
