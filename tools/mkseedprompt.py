#!/usr/bin/env python3
"""mkseedprompt.py <round> <property> -> writes /tmp/seed<round>/<property>.prompt and creates the worktree.
Round >= 2 lists the earlier seeded changes of that property so that new ones attack other clauses."""
import json, os, subprocess, sys, glob
rnd, pid = sys.argv[1], sys.argv[2]
props = {json.loads(l)['id']: json.loads(l) for l in open('/verif/properties.jsonl')}
p = props[pid]
root = '/tmp/seed%s' % rnd
wt = '%s/%s' % (root, pid)
os.makedirs(root, exist_ok=True)
if not os.path.isdir(wt):
    subprocess.check_call(['git', '-C', '/repo', 'worktree', 'add', '-q', '--detach', wt, 'HEAD'])
base = open('/verif/tools/prompts/seed_template.txt').read()
txt = base.format(wt=wt, pid=pid, title=p['title'], statement=p['statement'], quant=p['quantifier']['text'],
                  files=', '.join(p['anchors']['files']))
txt = txt.replace('/tmp/seedwork-', '/tmp/seedwork%s-' % rnd)
prev = []
for d in sorted(glob.glob('/verif/seeded/%s-*' % pid)):
    n = os.path.join(d, 'notes.md')
    if os.path.exists(n):
        prev.append('--- earlier change %s ---\n%s' % (os.path.basename(d), open(n).read()[:1300]))
if prev:
    txt += ('\nEARLIER SEEDED CHANGES FOR THIS PROPERTY (already done by others - do NOT repeat them or close variants; '
            'attack OTHER clauses of the property, other files among the anchors, other mechanisms, other variants/'
            'configurations; prefer changes that need a rarer trigger than these):\n\n' + '\n\n'.join(prev) + '\n')
open('%s/%s.prompt' % (root, pid), 'w').write(txt)
print(wt)
