#!/usr/bin/env python3
"""Regenerates the seeded-change table (DESIGN.md 11.4) and the evidence table (11.5) between markers."""
import json, glob, os, re, subprocess
rows = ["| seeded change | what it needs to manifest | outcome |", "|---|---|---|"]
n = caught_first = 0
for d in sorted(glob.glob('/verif/seeded/*/meta.json')):
    m = json.load(open(d))
    n += 1
    det = m['detected_by']
    if 'missed' not in det.lower() and 'after' not in det.lower():
        caught_first += 1
    rows.append("| %s | %s | %s |" % (m['id'], m['needs_to_manifest'].replace('|', '/'), det.replace('|', '/')))
seed = "\n".join(rows) + "\n\n%d seeded changes recorded; %d were caught by the check as first built, the others only after the strengthening named in their row.\n" % (n, caught_first)
ev = subprocess.check_output(['python3', '/verif/tools/evtable.py']).decode()
p = '/verif/DESIGN.md'
s = open(p).read()
def put(s, tag, body):
    a, b = '<!-- %s:BEGIN -->' % tag, '<!-- %s:END -->' % tag
    i, j = s.index(a), s.index(b)
    return s[:i + len(a)] + "\n" + body + s[j:]
s = put(s, 'SEEDTABLE', seed)
s = put(s, 'EVTABLE', ev)
open(p, 'w').write(s)
print("tables regenerated: %d seeds" % n)
