#!/bin/bash
# tools/sweep.sh "<ids>" "<seeds>" [tier] : runs checks, prints one line per run
cd /verif
for p in $1; do for s in $2; do
  out=$(./check $p --seed $s --tier ${3:-quick} 2>&1); rc=$?
  echo "$p seed=$s rc=$rc $(echo "$out" | grep -a '\[done\]' | sed 's/.*validated, //')"
  if [ $rc -ne 0 ]; then echo "$out" | grep -a "REJECTED\|MACHINERY" | head -3 | cut -c1-300; fi
done; done
