#!/bin/bash
# tools/try_seed.sh <property> <seed-dir> "<seeds>" [tier] : apply a seeded patch to a private worktree of
# /repo's HEAD (so that /repo itself and concurrent trials are not disturbed), run the check against it
# (VERIF_REPO), remove the worktree.
P=$1; D=$2; SEEDS=${3:-"1 5"}; TIER=${4:-quick}
W=/tmp/tryseed.$$.$RANDOM
for i in 1 2 3 4 5; do   # concurrent `git worktree add` calls can collide on the repository lock
  git -C /repo worktree add -q --detach $W HEAD 2>/dev/null && break
  sleep $((RANDOM % 3 + 1)); [ $i = 5 ] && { echo "$P $D: cannot create worktree"; exit 2; }
done
trap 'git -C /repo worktree remove --force $W >/dev/null 2>&1' EXIT
cd $W && git apply --check "$D/patch.diff" 2>/dev/null || { echo "$P $D: PATCH DOES NOT APPLY"; exit 2; }
git apply "$D/patch.diff"
for s in $SEEDS; do
  out=$(cd /verif && VERIF_REPO=$W ./check $P --tier $TIER --seed $s 2>&1); rc=$?
  echo "$P $(basename $D) seed=$s rc=$rc $(echo "$out" | grep -a '\[done\]' | sed 's/.*validated, //') $(echo "$out" | grep -a -m1 'REJECTED\|MACHINERY' | cut -c1-260)"
done
