#!/bin/bash
# tools/try_seed.sh <property> <seed-dir> "<seeds>" : apply seeded patch to /repo, run the quick check, revert
P=$1; D=$2; SEEDS=${3:-"1 5"}
cd /repo && git apply --check "$D/patch.diff" 2>/dev/null || { echo "$P $D: PATCH DOES NOT APPLY"; exit 2; }
git apply "$D/patch.diff"
for s in $SEEDS; do
  out=$(cd /verif && ./check $P --seed $s 2>&1); rc=$?
  echo "$P $(basename $D) seed=$s rc=$rc $(echo "$out" | grep -a '\[done\]' | sed 's/.*validated, //') $(echo "$out" | grep -a -m1 'REJECTED\|MACHINERY' | cut -c1-260)"
done
cd /repo && git apply -R "$D/patch.diff"
