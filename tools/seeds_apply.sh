#!/bin/bash
# tools/seeds_apply.sh : every saved seeded patch must still apply to /repo's HEAD (after a fix: commit that
# touches the same lines a patch is rebased by hand and the seed re-tried)
W=/tmp/seedsapply.$$; git -C /repo worktree add -q --detach $W HEAD || exit 2
trap 'git -C /repo worktree remove --force $W >/dev/null 2>&1' EXIT
cd $W; n=0; bad=0
for d in /verif/seeded/*; do n=$((n+1)); git apply --check $d/patch.diff 2>/dev/null || { echo "NOAPPLY $(basename $d)"; bad=$((bad+1)); }; done
echo "$n seeds, $bad do not apply"
