#!/bin/bash
# confirm_seed.sh <worktree> <seeddir> <demo dest path rel. to worktree> <go test run regex> <pkg> [skip-pkg-tests]
# Confirms: demo passes on the clean tree, fails with the patch; package tests pass with the patch.
set -u
WT=$1; SD=$2; DEST=$3; RUN=$4; PKG=$5; SKIP=${6:-}
export GOFLAGS=-mod=mod GOPROXY=off GOSUMDB=off GOTOOLCHAIN=local
cd "$WT" || exit 2
git checkout -q -- . ; cp "$SD/demo_test.go" "$DEST"
echo "--- demo on clean tree (expect PASS)"; go test -count=1 -timeout 120s -run "$RUN" "$PKG" 2>&1 | tail -3
git apply "$SD/patch.diff" || { echo "PATCH DOES NOT APPLY"; rm -f "$DEST"; exit 2; }
echo "--- build+vet with patch"; go build ./... && go vet "$PKG" 2>&1 | tail -3
echo "--- demo with patch (expect FAIL)"; go test -count=1 -timeout 120s -run "$RUN" "$PKG" 2>&1 | tail -5
rm -f "$DEST"
if [ -z "$SKIP" ]; then echo "--- package tests with patch (expect ok)"; go test -count=1 -timeout 25m "$PKG" 2>&1 | tail -3; fi
git checkout -q -- .
